#!/bin/bash
# usage: tools_run_seed.sh <seed-dir-name> <property> [tier]   -- applies the seeded patch to /repo, runs the check, reverts
seed=$1; prop=$2; tier=${3:-quick}
cd /repo || exit 2
if ! git diff --quiet; then echo "/repo not clean"; exit 2; fi
git apply /verif/seeded/$seed/patch.diff || { echo "patch does not apply"; exit 2; }
cd /verif
bin/check $prop $tier > /tmp/seedrun-$seed-$prop.log 2>&1; rc=$?
git -C /repo checkout -- .
grep -E "^(VIOLATION|KNOWN|INCONCLUSIVE|OK|ERROR)" /tmp/seedrun-$seed-$prop.log | cut -c1-300
echo "seed=$seed prop=$prop tier=$tier rc=$rc"
# the run above rewrote the evidence file from a mutated tree: restore the committed one
git -C /verif checkout -- evidence/$prop.json 2>/dev/null
