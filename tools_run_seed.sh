#!/bin/bash
# usage: tools_run_seed.sh <seed-dir-name> <property> [tier]
# applies the seeded patch to a scratch worktree of /repo's HEAD (outside /repo and /verif), runs the
# property's check against it (SYMX_REPO), removes the worktree. /repo itself is never modified.
seed=$1; prop=$2; tier=${3:-quick}
wt=/tmp/seedwt-$seed
export GOFLAGS=-mod=mod GOPROXY=off GOSUMDB=off GOTOOLCHAIN=local
git -C /repo worktree remove --force $wt 2>/dev/null
git -C /repo worktree add -q $wt HEAD || exit 2
( cd $wt && ( git apply /verif/seeded/$seed/patch.diff 2>/dev/null || git apply --3way /verif/seeded/$seed/patch.diff 2>/dev/null || patch -p1 -s --fuzz=3 < /verif/seeded/$seed/patch.diff ) ) || { echo "patch does not apply"; git -C /repo worktree remove --force $wt; exit 2; }
cd /verif
(cd engine && go build -o ../bin/symx .) >&2
SYMX_REPO=$wt bin/symx check $prop --tier $tier --out-dir /tmp/seedrun-$seed > /tmp/seedrun-$seed-$prop.log 2>&1; rc=$?
git -C /repo worktree remove --force $wt; git -C /repo worktree prune
grep -E "^(VIOLATION|KNOWN|INCONCLUSIVE|OK|ERROR)" /tmp/seedrun-$seed-$prop.log | cut -c1-300
echo "seed=$seed prop=$prop tier=$tier rc=$rc"
