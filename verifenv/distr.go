//go:build verif

package verifenv

import (
	"github.com/cometbft/cometbft/libs/log"
	sdk "github.com/cosmos/cosmos-sdk/types"
	authtypes "github.com/cosmos/cosmos-sdk/x/auth/types"
	stakingtypes "github.com/cosmos/cosmos-sdk/x/staking/types"

	sdkmath "cosmossdk.io/math"

	exomintkeeper "github.com/ExocoreNetwork/exocore/x/exomint/keeper"
	exominttypes "github.com/ExocoreNetwork/exocore/x/exomint/types"
	distrkeeper "github.com/ExocoreNetwork/exocore/x/feedistribution/keeper"
	distrtypes "github.com/ExocoreNetwork/exocore/x/feedistribution/types"

	"github.com/ExocoreNetwork/exocore/verifrt"
)

const Denom = "hua"

// module account addresses of the model (fixed, distinct)
var moduleIdx = map[string]byte{
	authtypes.FeeCollectorName: 0xf1, distrtypes.ModuleName: 0xf2, exominttypes.ModuleName: 0xf3, "delegated_pool": 0xf4,
}

func ModuleAddr(name string) sdk.AccAddress {
	b, ok := moduleIdx[name]
	if !ok {
		return nil
	}
	return sdk.AccAddress(fill(b, 20))
}

// ---- bank model, second part: module-addressed transfers, minting and supply ----

func (b *Bank) Supply(denom string) sdkmath.Int { return b.get("supply", denom) }

func (b *Bank) GetAllBalances(_ sdk.Context, addr sdk.AccAddress) sdk.Coins {
	v := b.get(addr.String(), Denom)
	if v.IsZero() {
		return sdk.Coins{}
	}
	return sdk.Coins{sdk.Coin{Denom: Denom, Amount: v}}
}
func (b *Bank) SpendableCoins(ctx sdk.Context, addr sdk.AccAddress) sdk.Coins {
	return b.GetAllBalances(ctx, addr)
}
func (b *Bank) BlockedAddr(_ sdk.AccAddress) bool { return false }

func (b *Bank) SendCoinsFromModuleToModule(_ sdk.Context, from, to string, amt sdk.Coins) error {
	return b.move(ModuleAddr(from).String(), ModuleAddr(to).String(), amt)
}
func (b *Bank) SendCoinsFromModuleToAccount(_ sdk.Context, from string, to sdk.AccAddress, amt sdk.Coins) error {
	return b.move(ModuleAddr(from).String(), to.String(), amt)
}
func (b *Bank) SendCoinsFromAccountToModule(_ sdk.Context, from sdk.AccAddress, to string, amt sdk.Coins) error {
	return b.move(from.String(), ModuleAddr(to).String(), amt)
}
func (b *Bank) MintCoins(_ sdk.Context, module string, amt sdk.Coins) error {
	for _, c := range amt {
		if !c.Amount.IsPositive() {
			return distrtypes.ErrInvalidLengthGenesis
		}
		w := ModuleAddr(module).String()
		b.Set(w, c.Denom, b.get(w, c.Denom).Add(c.Amount))
		b.Set("supply", c.Denom, b.get("supply", c.Denom).Add(c.Amount))
	}
	return nil
}

// ---- account keeper stub ----

type modAcc struct {
	authtypes.ModuleAccountI
	addr sdk.AccAddress
	name string
}

func (m modAcc) GetAddress() sdk.AccAddress { return m.addr }
func (m modAcc) GetName() string            { return m.name }

type AccKeeper struct{ AccStub }

func (AccKeeper) GetAccount(_ sdk.Context, _ sdk.AccAddress) authtypes.AccountI { return nil }
func (AccKeeper) GetModuleAddress(name string) sdk.AccAddress                   { return ModuleAddr(name) }
func (AccKeeper) GetModuleAccount(_ sdk.Context, name string) authtypes.ModuleAccountI {
	return modAcc{addr: ModuleAddr(name), name: name}
}
func (AccKeeper) SetModuleAccount(_ sdk.Context, _ authtypes.ModuleAccountI) {}

// ValStub is a stakingtypes.ValidatorI of which only GetOperator is used by the code under test.
type ValStub struct {
	stakingtypes.ValidatorI
	Op sdk.ValAddress
}

func (v ValStub) GetOperator() sdk.ValAddress { return v.Op }

// Distr = Full + fee distribution and mint keepers.
type Distr struct {
	*Full
	Distr distrkeeper.Keeper
	Mint  exomintkeeper.Keeper
}

func NewDistr(height int64) *Distr {
	f := NewFull(height)
	cdc := f.Env.Cdc
	dkey := verifrt.StoreKey(distrtypes.StoreKey)
	mkey := verifrt.StoreKey(exominttypes.StoreKey)
	// stores are created lazily by key in the model; natively the context must see the new keys
	f.Ctx = verifrt.RemountContext(f.Ctx)
	f.Env.Ctx = f.Ctx
	d := &Distr{Full: f}
	d.Distr = distrkeeper.NewKeeper(cdc, log.NewNopLogger(), authtypes.FeeCollectorName, Authority, dkey, f.Bank, AccKeeper{}, *f.Dogfood, *f.Epochs)
	d.Mint = exomintkeeper.NewKeeper(cdc, mkey, AccKeeper{}, f.Bank, *f.Epochs, authtypes.FeeCollectorName, Authority)
	return d
}
