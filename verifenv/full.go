//go:build verif

package verifenv

import (
	sdkmath "cosmossdk.io/math"
	sdk "github.com/cosmos/cosmos-sdk/types"
	"github.com/ethereum/go-ethereum/common"
	"github.com/evmos/evmos/v16/x/evm/statedb"

	assetskeeper "github.com/ExocoreNetwork/exocore/x/assets/keeper"
	assetstypes "github.com/ExocoreNetwork/exocore/x/assets/types"
	avskeeper "github.com/ExocoreNetwork/exocore/x/avs/keeper"
	avstypes "github.com/ExocoreNetwork/exocore/x/avs/types"
	delegationkeeper "github.com/ExocoreNetwork/exocore/x/delegation/keeper"
	delegationtypes "github.com/ExocoreNetwork/exocore/x/delegation/types"
	dogfoodkeeper "github.com/ExocoreNetwork/exocore/x/dogfood/keeper"
	dogfoodtypes "github.com/ExocoreNetwork/exocore/x/dogfood/types"
	epochskeeper "github.com/ExocoreNetwork/exocore/x/epochs/keeper"
	epochstypes "github.com/ExocoreNetwork/exocore/x/epochs/types"
	operatorkeeper "github.com/ExocoreNetwork/exocore/x/operator/keeper"
	operatortypes "github.com/ExocoreNetwork/exocore/x/operator/types"
	oracletypes "github.com/ExocoreNetwork/exocore/x/oracle/types"

	"github.com/ExocoreNetwork/exocore/verifrt"
)

// PriceOracle is the oracle stub of the full environment: prices are set by the harness
// (symbolic values); an asset without a price yields ErrGetPriceRoundNotFound like the real keeper.
type PriceOracle struct {
	Prices map[string]oracletypes.Price
}

func (o *PriceOracle) GetSpecifiedAssetsPrice(_ sdk.Context, assetID string) (oracletypes.Price, error) {
	if p, ok := o.Prices[assetID]; ok {
		return p, nil
	}
	return oracletypes.Price{Value: sdkmath.NewInt(oracletypes.DefaultPriceValue), Decimal: oracletypes.DefaultPriceDecimal}, oracletypes.ErrGetPriceRoundNotFound
}

func (o *PriceOracle) GetMultipleAssetsPrices(ctx sdk.Context, assets map[string]interface{}) (map[string]oracletypes.Price, error) {
	ret := make(map[string]oracletypes.Price)
	for a := range assets {
		p, err := o.GetSpecifiedAssetsPrice(ctx, a)
		if err != nil {
			return nil, err
		}
		ret[a] = p
	}
	return ret, nil
}
func (o *PriceOracle) RegisterNewTokenAndSetTokenFeeder(_ sdk.Context, _ *oracletypes.OracleInfo) error {
	return nil
}
func (o *PriceOracle) UpdateNSTValidatorListForStaker(_ sdk.Context, _, _, _ string, _ sdkmath.Int) error {
	return nil
}

type EvmStub struct{}

func (EvmStub) SetAccount(_ sdk.Context, _ common.Address, _ statedb.Account) error { return nil }
func (EvmStub) SetCode(_ sdk.Context, _, _ []byte)                               {}

// DogfoodHookRec records dogfood (staking-style) hook calls; stands in for x/slashing.
type DogfoodHookRec struct{ Bonded, Removed, Created int }

func (h *DogfoodHookRec) AfterValidatorBonded(_ sdk.Context, _ sdk.ConsAddress, _ sdk.ValAddress) error {
	h.Bonded++
	return nil
}
func (h *DogfoodHookRec) AfterValidatorRemoved(_ sdk.Context, _ sdk.ConsAddress, _ sdk.ValAddress) error {
	h.Removed++
	return nil
}
func (h *DogfoodHookRec) AfterValidatorCreated(_ sdk.Context, _ sdk.ValAddress) error {
	h.Created++
	return nil
}

// Full is the restaking environment with the real assets, delegation, operator, avs, dogfood and
// epochs keepers wired as in app.go; bank, account, oracle, evm and slashing hooks are stubs.
type Full struct {
	Ctx      sdk.Context
	Assets   assetskeeper.Keeper
	Deleg    *delegationkeeper.Keeper
	Operator *operatorkeeper.Keeper
	AVS      *avskeeper.Keeper
	Dogfood  *dogfoodkeeper.Keeper
	Epochs   *epochskeeper.Keeper
	Bank     *Bank
	Oracle   *PriceOracle
	DfHooks  *DogfoodHookRec
	Env      *Env // store keys / codec / direct writers shared with the ledger helpers
}

// NewFull wires the keepers over empty stores. height may be symbolic.
func NewFull(height int64) *Full {
	akey := verifrt.StoreKey(assetstypes.StoreKey)
	dkey := verifrt.StoreKey(delegationtypes.StoreKey)
	okey := verifrt.StoreKey(operatortypes.StoreKey)
	vkey := verifrt.StoreKey(avstypes.StoreKey)
	fkey := verifrt.StoreKey(dogfoodtypes.StoreKey)
	ekey := verifrt.StoreKey(epochstypes.StoreKey)
	cdc := verifrt.Codec()
	ctx := verifrt.NewContext(height, 1700000000, ChainID)
	f := &Full{Ctx: ctx, Bank: NewBank(), Oracle: &PriceOracle{Prices: map[string]oracletypes.Price{}}, DfHooks: &DogfoodHookRec{}}
	f.Epochs = epochskeeper.NewKeeper(cdc, ekey)
	dk := &delegationkeeper.Keeper{}
	ok := &operatorkeeper.Keeper{}
	vk := &avskeeper.Keeper{}
	f.Assets = assetskeeper.NewKeeper(akey, cdc, f.Oracle, f.Bank, dk, Authority)
	*dk = delegationkeeper.NewKeeper(dkey, cdc, f.Assets, delegationtypes.VirtualSlashKeeper{}, ok, AccStub{}, f.Bank)
	fk := dogfoodkeeper.NewKeeper(cdc, fkey, *f.Epochs, ok, *dk, f.Assets, vk, Authority)
	*vk = avskeeper.NewKeeper(cdc, vkey, ok, f.Assets, *f.Epochs, EvmStub{})
	*ok = operatorkeeper.NewKeeper(okey, cdc, f.Assets, dk, f.Oracle, vk, delegationtypes.VirtualSlashKeeper{})
	f.Dogfood = &fk
	ok.SetHooks(f.Dogfood.OperatorHooks())
	dk.SetHooks(f.Dogfood.DelegationHooks())
	f.Dogfood.SetHooks(dogfoodtypes.NewMultiDogfoodHooks(f.DfHooks))
	f.Deleg, f.Operator, f.AVS = dk, ok, vk
	f.Env = &Env{AKey: akey, DKey: dkey, Cdc: cdc, Ctx: ctx, Assets: f.Assets, Deleg: dk, Bank: f.Bank}
	return f
}

var _ = operatortypes.ModuleName
