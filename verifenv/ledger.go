//go:build verif

package verifenv

import (
	"fmt"

	sdkmath "cosmossdk.io/math"
	sdk "github.com/cosmos/cosmos-sdk/types"

	assetstypes "github.com/ExocoreNetwork/exocore/x/assets/types"
	delegationtypes "github.com/ExocoreNetwork/exocore/x/delegation/types"

	"github.com/ExocoreNetwork/exocore/verifrt"
)

// Ledger is a symbolic pre-state of the assets+delegation ledger for one asset over the universe
// NS stakers x NO operators. It is written into the stores with the real setters and satisfies the
// representation invariant by construction (sums are computed, not assumed).
type Ledger struct {
	E       *Env
	NS, NO  int
	AssetID string
	Max     sdkmath.Int

	Assoc [](int) // per staker: -1 none, else operator index

	sumW, sumT, sumP sdkmath.Int
}

// AssumeStakingTotalCovers: for an LST the published staking total (deposits - withdrawals) is at
// least everything still on the ledger (slashing only removes from the ledger).
func (l *Ledger) AssumeStakingTotalCovers(total sdkmath.Int) {
	verifrt.Assume(total.GTE(l.sumW.Add(l.sumT).Add(l.sumP)))
}

func nm(f string, a ...interface{}) string { return fmt.Sprintf(f, a...) }

// amount in [0, max]
func (l *Ledger) amt(name string) sdkmath.Int {
	v := verifrt.Int(name)
	verifrt.Assume(verifrt.All(!v.IsNegative(), v.LTE(l.Max)))
	return v
}

// share (LegacyDec) in [0, max units]
func (l *Ledger) shr(name string) sdkmath.LegacyDec {
	v := verifrt.Dec(name)
	verifrt.Assume(verifrt.All(!v.IsNegative(), v.LTE(sdkmath.LegacyNewDecFromInt(l.Max))))
	return v
}

// NewSymbolicLedger builds the pre-state. maxBits bounds every amount (and share, in units).
func NewSymbolicLedger(e *Env, ns, no int, assetID string, maxBits int) *Ledger {
	// rows=1: every staker has an asset row (has deposited before); rows=0: presence is symbolic
	rows := verifrt.Param("staker_rows_present", 1) == 1
	one := sdkmath.NewInt(1)
	max := one
	for i := 0; i < maxBits; i++ {
		max = max.MulRaw(2)
	}
	l := &Ledger{E: e, NS: ns, NO: no, AssetID: assetID, Max: max, sumW: sdkmath.ZeroInt(), sumT: sdkmath.ZeroInt(), sumP: sdkmath.ZeroInt()}
	ctx := e.Ctx
	zeroDec := sdkmath.LegacyZeroDec()

	// associations
	for s := 0; s < ns; s++ {
		a := verifrt.Choice(nm("assoc_s%d", s), no+1) - 1
		l.Assoc = append(l.Assoc, a)
		if a >= 0 {
			verifrt.Assume(e.Deleg.SetAssociatedOperator(ctx, StakerID(s), OperatorBech[a]) == nil)
		}
	}
	// per-staker asset rows
	pend := make([]sdkmath.Int, ns)
	for s := 0; s < ns; s++ {
		pend[s] = sdkmath.ZeroInt()
	}
	for o := 0; o < no; o++ {
		totalShare := zeroDec
		opShare := zeroDec
		opPending := sdkmath.ZeroInt()
		anyEntry := false
		for s := 0; s < ns; s++ {
			// 0 = no delegation entry, 1 = entry with zero share, 2 = entry with positive share
			kind := verifrt.Choice(nm("entry_s%d_o%d", s, o), 3)
			if kind == 0 {
				continue
			}
			anyEntry = true
			sh := zeroDec
			if kind == 2 {
				sh = l.shr(nm("share_s%d_o%d", s, o))
				// a delegation of >= 1 base unit mints >= 1 whole share (rate >= 1), and undelegation
				// sweeps dust: a positive position is never below one whole share on an LST ledger
				verifrt.Assume(sh.GTE(sdkmath.LegacyOneDec()))
			}
			w := l.amt(nm("wait_s%d_o%d", s, o))
			e.PutDelegation(s, o, assetID, delegationtypes.DelegationAmounts{UndelegatableShare: sh, WaitUndelegationAmount: w})
			if kind == 2 {
				verifrt.Assume(e.Deleg.AppendStakerForOperator(ctx, OperatorBech[o], assetID, StakerID(s)) == nil)
			}
			totalShare = totalShare.Add(sh)
			if l.Assoc[s] == o {
				opShare = opShare.Add(sh)
			}
			opPending = opPending.Add(w)
			pend[s] = pend[s].Add(w)
		}
		if !anyEntry {
			// operator pool row may be absent altogether
			continue
		}
		T := l.amt(nm("pool_o%d", o))
		// reachable exchange rates: amount <= share total (slashing only lowers the amount),
		// and shares are zero exactly when the pool is empty
		verifrt.Assume(sdkmath.LegacyNewDecFromInt(T).LTE(totalShare))
		verifrt.Assume(T.IsZero() == totalShare.IsZero())
		l.sumT = l.sumT.Add(T)
		l.sumP = l.sumP.Add(opPending)
		e.PutOperatorAsset(o, assetID, assetstypes.OperatorAssetInfo{
			TotalAmount: T, PendingUndelegationAmount: opPending, TotalShare: totalShare, OperatorShare: opShare,
		})
	}
	for s := 0; s < ns; s++ {
		if rows || verifrt.Bool(nm("staker_row_s%d", s)) {
			w := l.amt(nm("withdrawable_s%d", s))
			d := l.amt(nm("deposit_s%d", s))
			verifrt.Assume(d.GTE(w.Add(pend[s])))
			l.sumW = l.sumW.Add(w)
			e.PutStakerAsset(s, assetID, assetstypes.StakerAssetInfo{
				TotalDepositAmount: d, WithdrawableAmount: w, PendingUndelegationAmount: pend[s],
			})
		} else {
			verifrt.Assume(pend[s].IsZero())
		}
	}
	return l
}

// Snapshot of the observable ledger figures, read back with the real getters.
type Snap struct {
	PoolAmount, PoolPending         []sdkmath.Int
	PoolShare, PoolOpShare          []sdkmath.LegacyDec
	PoolExists                      []bool
	Share                           [][]sdkmath.LegacyDec // [s][o]
	Wait                            [][]sdkmath.Int
	EntryExists                     [][]bool
	Withdrawable, Deposit, StPending []sdkmath.Int
	StakerRow                       []bool
	StakingTotal                    sdkmath.Int
	InList                          [][]bool
}

func (l *Ledger) Read() *Snap {
	e, ctx := l.E, l.E.Ctx
	sn := &Snap{}
	zi, zd := sdkmath.ZeroInt(), sdkmath.LegacyZeroDec()
	for o := 0; o < l.NO; o++ {
		info, err := e.Assets.GetOperatorSpecifiedAssetInfo(ctx, OperatorAddr(o), l.AssetID)
		if err != nil {
			sn.PoolExists = append(sn.PoolExists, false)
			sn.PoolAmount = append(sn.PoolAmount, zi)
			sn.PoolPending = append(sn.PoolPending, zi)
			sn.PoolShare = append(sn.PoolShare, zd)
			sn.PoolOpShare = append(sn.PoolOpShare, zd)
		} else {
			sn.PoolExists = append(sn.PoolExists, true)
			sn.PoolAmount = append(sn.PoolAmount, info.TotalAmount)
			sn.PoolPending = append(sn.PoolPending, info.PendingUndelegationAmount)
			sn.PoolShare = append(sn.PoolShare, info.TotalShare)
			sn.PoolOpShare = append(sn.PoolOpShare, info.OperatorShare)
		}
	}
	for s := 0; s < l.NS; s++ {
		var shs []sdkmath.LegacyDec
		var ws []sdkmath.Int
		var ex, inl []bool
		for o := 0; o < l.NO; o++ {
			d, err := e.Deleg.GetSingleDelegationInfo(ctx, StakerID(s), l.AssetID, OperatorBech[o])
			if err != nil {
				shs = append(shs, zd)
				ws = append(ws, zi)
				ex = append(ex, false)
			} else {
				shs = append(shs, d.UndelegatableShare)
				ws = append(ws, d.WaitUndelegationAmount)
				ex = append(ex, true)
			}
			in := false
			if e.Deleg.HasStakerList(ctx, OperatorBech[o], l.AssetID) {
				lst, err := e.Deleg.GetStakersByOperator(ctx, OperatorBech[o], l.AssetID)
				if err == nil {
					for _, x := range lst.Stakers {
						if x == StakerID(s) {
							in = true
						}
					}
				}
			}
			inl = append(inl, in)
		}
		sn.Share = append(sn.Share, shs)
		sn.Wait = append(sn.Wait, ws)
		sn.EntryExists = append(sn.EntryExists, ex)
		sn.InList = append(sn.InList, inl)
		info, err := e.Assets.GetStakerSpecifiedAssetInfo(ctx, StakerID(s), l.AssetID)
		if err != nil {
			sn.StakerRow = append(sn.StakerRow, false)
			sn.Withdrawable = append(sn.Withdrawable, zi)
			sn.Deposit = append(sn.Deposit, zi)
			sn.StPending = append(sn.StPending, zi)
		} else {
			sn.StakerRow = append(sn.StakerRow, true)
			sn.Withdrawable = append(sn.Withdrawable, info.WithdrawableAmount)
			sn.Deposit = append(sn.Deposit, info.TotalDepositAmount)
			sn.StPending = append(sn.StPending, info.PendingUndelegationAmount)
		}
	}
	ai, err := e.Assets.GetStakingAssetInfo(ctx, l.AssetID)
	if err == nil {
		sn.StakingTotal = ai.StakingTotalAmount
	} else {
		sn.StakingTotal = zi
	}
	return sn
}

// Sigma = sum of withdrawable balances + pools + pending figures (the conserved quantity of C01;
// the pending figure of a record equals what it owes until it is slashed).
func (sn *Snap) Sigma() sdkmath.Int {
	t := sdkmath.ZeroInt()
	for _, w := range sn.Withdrawable {
		t = t.Add(w)
	}
	for _, p := range sn.PoolAmount {
		t = t.Add(p)
	}
	for _, p := range sn.PoolPending {
		t = t.Add(p)
	}
	return t
}

// Liquid = withdrawable balances + pools (without pending).
func (sn *Snap) Liquid() sdkmath.Int {
	t := sdkmath.ZeroInt()
	for _, w := range sn.Withdrawable {
		t = t.Add(w)
	}
	for _, p := range sn.PoolAmount {
		t = t.Add(p)
	}
	return t
}

// AssertInv asserts the share/ledger representation invariant on a snapshot.
func (l *Ledger) AssertInv(sn *Snap, assoc []int, tag string) {
	for o := 0; o < l.NO; o++ {
		sum := sdkmath.LegacyZeroDec()
		self := sdkmath.LegacyZeroDec()
		pend := sdkmath.ZeroInt()
		for s := 0; s < l.NS; s++ {
			sum = sum.Add(sn.Share[s][o])
			if assoc[s] == o {
				self = self.Add(sn.Share[s][o])
			}
			pend = pend.Add(sn.Wait[s][o])
			verifrt.Assert(verifrt.All(!sn.Share[s][o].IsNegative(), !sn.Wait[s][o].IsNegative()), tag+": delegation figures non-negative")
			verifrt.Assert(sn.InList[s][o] == sn.Share[s][o].IsPositive(), tag+": delegator list is exactly the set with non-zero shares")
		}
		verifrt.Assert(sn.PoolShare[o].Equal(sum), tag+": total shares equal the sum of delegator shares")
		verifrt.Assert(sn.PoolOpShare[o].Equal(self), tag+": self-share equals the sum over associated delegators")
		verifrt.Assert(sn.PoolPending[o].Equal(pend), tag+": operator pending figure equals the sum over its delegators")
		verifrt.Assert(verifrt.All(!sn.PoolAmount[o].IsNegative(), !sn.PoolPending[o].IsNegative()), tag+": pool figures non-negative")
		verifrt.Assert(sn.PoolAmount[o].IsZero() == sn.PoolShare[o].IsZero(), tag+": shares are zero exactly when the pool amount is zero")
	}
	for s := 0; s < l.NS; s++ {
		pend := sdkmath.ZeroInt()
		for o := 0; o < l.NO; o++ {
			pend = pend.Add(sn.Wait[s][o])
		}
		verifrt.Assert(sn.StPending[s].Equal(pend), tag+": staker pending figure equals the sum over operators")
		verifrt.Assert(verifrt.All(!sn.Withdrawable[s].IsNegative(), !sn.StPending[s].IsNegative()), tag+": staker figures non-negative")
	}
}

// AssertSame asserts two snapshots are identical (failure atomicity).
func (l *Ledger) AssertSame(a, b *Snap, tag string) {
	cs := []bool{a.StakingTotal.Equal(b.StakingTotal)}
	for o := 0; o < l.NO; o++ {
		cs = append(cs, a.PoolExists[o] == b.PoolExists[o], a.PoolAmount[o].Equal(b.PoolAmount[o]), a.PoolPending[o].Equal(b.PoolPending[o]),
			a.PoolShare[o].Equal(b.PoolShare[o]), a.PoolOpShare[o].Equal(b.PoolOpShare[o]))
	}
	for s := 0; s < l.NS; s++ {
		cs = append(cs, a.StakerRow[s] == b.StakerRow[s], a.Withdrawable[s].Equal(b.Withdrawable[s]), a.Deposit[s].Equal(b.Deposit[s]), a.StPending[s].Equal(b.StPending[s]))
		for o := 0; o < l.NO; o++ {
			cs = append(cs, a.EntryExists[s][o] == b.EntryExists[s][o], a.Share[s][o].Equal(b.Share[s][o]), a.Wait[s][o].Equal(b.Wait[s][o]), a.InList[s][o] == b.InList[s][o])
		}
	}
	verifrt.Assert(verifrt.All(cs...), tag)
}

// DelegParams builds the keeper-level parameters for a (staker, operator) pair.
func DelegParams(s, o int, assetAddr []byte, amount sdkmath.Int, nonce uint64) *delegationtypes.DelegationOrUndelegationParams {
	return &delegationtypes.DelegationOrUndelegationParams{
		ClientChainID:   LzID,
		AssetsAddress:   assetAddr,
		OperatorAddress: OperatorAddr(o),
		StakerAddress:   StakerAddr(s),
		OpAmount:        amount,
		LzNonce:         nonce,
	}
}

var _ = sdk.AccAddress{}

// NewPlainLedger: ledger with no delegation entries/pools pre-populated except what AddRecord
// creates; staker rows exist with symbolic withdrawable balances. Used where the step under test
// only touches pending records and aggregates.
func NewPlainLedger(e *Env, ns, no int, assetID string, maxBits int) *Ledger {
	max := sdkmath.NewInt(1)
	for i := 0; i < maxBits; i++ {
		max = max.MulRaw(2)
	}
	l := &Ledger{E: e, NS: ns, NO: no, AssetID: assetID, Max: max, sumW: sdkmath.ZeroInt(), sumT: sdkmath.ZeroInt(), sumP: sdkmath.ZeroInt()}
	for s := 0; s < ns; s++ {
		l.Assoc = append(l.Assoc, -1)
		w := l.amt(nm("withdrawable_s%d", s))
		d := l.amt(nm("deposit_s%d", s))
		e.PutStakerAsset(s, assetID, assetstypes.StakerAssetInfo{TotalDepositAmount: d, WithdrawableAmount: w, PendingUndelegationAmount: sdkmath.ZeroInt()})
	}
	return l
}
