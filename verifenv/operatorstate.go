//go:build verif

package verifenv

import (
	sdkmath "cosmossdk.io/math"
	"github.com/cosmos/cosmos-sdk/store/prefix"
	stakingtypes "github.com/cosmos/cosmos-sdk/x/staking/types"

	assetstypes "github.com/ExocoreNetwork/exocore/x/assets/types"
	delegationtypes "github.com/ExocoreNetwork/exocore/x/delegation/types"
	avstypes "github.com/ExocoreNetwork/exocore/x/avs/types"
	operatortypes "github.com/ExocoreNetwork/exocore/x/operator/types"
	oracletypes "github.com/ExocoreNetwork/exocore/x/oracle/types"

	"github.com/ExocoreNetwork/exocore/verifrt"
)

const (
	AVSAddr   = "0x00000000000000000000000000000000000000a1"
	AVSAddr2  = "0x00000000000000000000000000000000000000a2"
	LST2Hex   = "0x1111111111111111111111111111111111111111"
	EpochDay  = "day"
	EpochHour = "hour"
)

func LST2Addr() []byte { return fill(0x11, 20) }
func LST2AssetID() string {
	_, id := assetstypes.GetStakerIDAndAssetID(LzID, nil, LST2Addr())
	return id
}

// AssetIDs of the universe, index 0 and 1.
func AssetIDs() []string { return []string{LSTAssetID(), LST2AssetID()} }
func AssetHex() []string { return []string{LSTAddrHex, LST2Hex} }

// PutUSDValue writes the per-(AVS, operator) USD value entry directly.
func (f *Full) PutUSDValue(avs string, o int, v operatortypes.OperatorOptedUSDValue) {
	st := prefix.NewStore(f.Ctx.KVStore(verifrt.StoreKey(operatortypes.StoreKey)), operatortypes.KeyPrefixUSDValueForOperator)
	st.Set(assetstypes.GetJoinedStoreKey(avs, OperatorBech[o]), f.Env.Cdc.MustMarshal(&v))
}

// RegisterOperator marks the operator as registered (operator info present).
func (f *Full) RegisterOperator(o int) {
	info := &operatortypes.OperatorInfo{EarningsAddr: OperatorBech[o], OperatorMetaInfo: "op", Commission: CommissionZero()}
	verifrt.Assume(f.Operator.SetOperatorInfo(f.Ctx, OperatorBech[o], info) == nil)
}

// SymAmount: symbolic amount in [0, 2^bits]
func SymAmount(name string, bits int) sdkmath.Int {
	v := verifrt.Int(name)
	max := sdkmath.NewInt(1)
	for i := 0; i < bits; i++ {
		max = max.MulRaw(2)
	}
	verifrt.Assume(verifrt.All(!v.IsNegative(), v.LTE(max)))
	return v
}

// SymPool writes a symbolic pool row for (operator, asset) satisfying the pool invariant and
// returns it. kind: 0 = absent, 1 = present.
func (f *Full) SymPool(tag string, o int, assetID string, bits int) (assetstypes.OperatorAssetInfo, bool) {
	if verifrt.Choice(tag+"_present", 2) == 0 {
		return assetstypes.OperatorAssetInfo{}, false
	}
	T := SymAmount(tag+"_amount", bits)
	P := SymAmount(tag+"_pending", bits)
	S := verifrt.Dec(tag + "_share")
	OS := verifrt.Dec(tag + "_self_share")
	verifrt.Assume(verifrt.All(!OS.IsNegative(), OS.LTE(S), S.LTE(sdkmath.LegacyNewDecFromInt(SymAmount(tag+"_share_cap", bits)))))
	verifrt.Assume(verifrt.All(sdkmath.LegacyNewDecFromInt(T).LTE(S), T.IsZero() == S.IsZero()))
	info := assetstypes.OperatorAssetInfo{TotalAmount: T, PendingUndelegationAmount: P, TotalShare: S, OperatorShare: OS}
	f.Env.Ctx = f.Ctx
	f.Env.PutOperatorAsset(o, assetID, info)
	// the delegator list is exactly the set with non-zero shares: staker 2 holds the whole pool
	if S.IsPositive() {
		f.Env.PutDelegation(2, o, assetID, delegationtypes.DelegationAmounts{UndelegatableShare: S, WaitUndelegationAmount: sdkmath.ZeroInt()})
		verifrt.Assume(f.Deleg.AppendStakerForOperator(f.Ctx, OperatorBech[o], assetID, StakerID(2)) == nil)
	}
	return info, true
}

// SetPrice sets a symbolic price (value >= 1) for the asset and returns it.
func (f *Full) SetPrice(tag, assetID string, bits int, decimal uint8) oracletypes.Price {
	v := SymAmount(tag+"_price", bits)
	verifrt.Assume(v.IsPositive())
	p := oracletypes.Price{Value: v, Decimal: decimal}
	f.Oracle.Prices[assetID] = p
	return p
}

// RegisterAVS stores an AVS with the given asset list and minimum self delegation.
func (f *Full) RegisterAVS(addr string, assetIDs []string, minSelf uint64, epochID string) {
	verifrt.Assume(f.AVS.SetAVSInfo(f.Ctx, &avstypes.AVSInfo{
		Name: "avs", AvsAddress: addr, SlashAddr: addr, AvsOwnerAddress: []string{Authority}, AssetIDs: assetIDs,
		AvsUnbondingPeriod: 2, MinSelfDelegation: minSelf, EpochIdentifier: epochID, StartingEpoch: 1,
		AvsReward: sdkmath.LegacyZeroDec(), AvsSlash: sdkmath.LegacyZeroDec(),
	}) == nil)
}

// CommissionZero / CommissionOf build staking commission values without calling dependency code.
func CommissionZero() stakingtypes.Commission { return CommissionOf(sdkmath.LegacyZeroDec()) }
func CommissionOf(rate sdkmath.LegacyDec) stakingtypes.Commission {
	return stakingtypes.Commission{CommissionRates: stakingtypes.CommissionRates{Rate: rate, MaxRate: sdkmath.LegacyOneDec(), MaxChangeRate: sdkmath.LegacyOneDec()}}
}

// PutAVSUSDValue writes the AVS total value entry directly.
func (f *Full) PutAVSUSDValue(avs string, v sdkmath.LegacyDec) {
	st := prefix.NewStore(f.Ctx.KVStore(verifrt.StoreKey(operatortypes.StoreKey)), operatortypes.KeyPrefixUSDValueForAVS)
	st.Set([]byte(avs), f.Env.Cdc.MustMarshal(&operatortypes.DecValueField{Amount: v}))
}
