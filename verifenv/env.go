//go:build verif

// Package verifenv wires the restaking keepers for harnesses. The same code runs under the
// symbolic engine (store/codec/context calls are intrinsics) and natively (real in-memory stores)
// when a counterexample is replayed.
package verifenv

import (
	sdkmath "cosmossdk.io/math"
	"github.com/cosmos/cosmos-sdk/codec"
	"github.com/cosmos/cosmos-sdk/store/prefix"
	storetypes "github.com/cosmos/cosmos-sdk/store/types"
	sdk "github.com/cosmos/cosmos-sdk/types"

	assetskeeper "github.com/ExocoreNetwork/exocore/x/assets/keeper"
	assetstypes "github.com/ExocoreNetwork/exocore/x/assets/types"
	delegationkeeper "github.com/ExocoreNetwork/exocore/x/delegation/keeper"
	delegationtypes "github.com/ExocoreNetwork/exocore/x/delegation/types"
	oracletypes "github.com/ExocoreNetwork/exocore/x/oracle/types"

	"github.com/ExocoreNetwork/exocore/verifrt"
)

// ---- identifier universe (concrete; numbers are symbolic) ----

const (
	ChainID    = "exocoretestnet_233-1"
	LzID       = uint64(101)
	LSTAddrHex = "0xdac17f958d2ee523a2206206994597c13d831ec7"
	Authority  = "exo1nxvenxvenxvenxvenxvenxvenxvenxve26l8hm"
)

var (
	OperatorBech = []string{
		"exo1qyqszqgpqyqszqgpqyqszqgpqyqszqgp22qtfv",
		"exo1qgpqyqszqgpqyqszqgpqyqszqgpqyqszmwxwz6",
		"exo1qvpsxqcrqvpsxqcrqvpsxqcrqvpsxqcr6780gm",
	}
	StakerHex = []string{
		"0xa1a1a1a1a1a1a1a1a1a1a1a1a1a1a1a1a1a1a1a1",
		"0xb2b2b2b2b2b2b2b2b2b2b2b2b2b2b2b2b2b2b2b2",
		"0xc3c3c3c3c3c3c3c3c3c3c3c3c3c3c3c3c3c3c3c3",
	}
)

func fill(b byte, n int) []byte {
	out := make([]byte, n)
	for i := range out {
		out[i] = b
	}
	return out
}

func OperatorAddr(i int) sdk.AccAddress { return sdk.AccAddress(fill(byte(i+1), 20)) }
func StakerAddr(i int) []byte {
	return fill([]byte{0xa1, 0xb2, 0xc3}[i], 20)
}
func LSTAddr() []byte {
	return []byte{0xda, 0xc1, 0x7f, 0x95, 0x8d, 0x2e, 0xe5, 0x23, 0xa2, 0x20, 0x62, 0x06, 0x99, 0x45, 0x97, 0xc1, 0x3d, 0x83, 0x1e, 0xc7}
}
func NSTAddr() []byte { return fill(0xee, 20) }

func StakerID(i int) string {
	id, _ := assetstypes.GetStakerIDAndAssetID(LzID, StakerAddr(i), nil)
	return id
}
func LSTAssetID() string {
	_, id := assetstypes.GetStakerIDAndAssetID(LzID, nil, LSTAddr())
	return id
}
func NSTAssetID() string {
	_, id := assetstypes.GetStakerIDAndAssetID(LzID, nil, NSTAddr())
	return id
}

// ---- stubs for keepers outside the unit under test ----

// OpStub implements delegationtypes.OperatorKeeper with a fixed operator set.
type OpStub struct {
	NOperators int
	Unbonding  uint64
}

func (o *OpStub) IsOperator(_ sdk.Context, addr sdk.AccAddress) bool {
	for i := 0; i < o.NOperators; i++ {
		if addr.Equals(OperatorAddr(i)) {
			return true
		}
	}
	return false
}

func (o *OpStub) GetUnbondingExpirationBlockNumber(_ sdk.Context, _ sdk.AccAddress, start uint64) uint64 {
	return start + o.Unbonding
}

// Bank is a single-purpose bank model: balances per (address|module, denom).
type Bank struct {
	Bal map[string]sdkmath.Int
}

func NewBank() *Bank { return &Bank{Bal: map[string]sdkmath.Int{}} }

func bkey(who, denom string) string { return who + "|" + denom }

func (b *Bank) get(who, denom string) sdkmath.Int {
	if v, ok := b.Bal[bkey(who, denom)]; ok {
		return v
	}
	return sdkmath.ZeroInt()
}

func (b *Bank) Set(who, denom string, v sdkmath.Int) { b.Bal[bkey(who, denom)] = v }

func (b *Bank) GetBalance(_ sdk.Context, addr sdk.AccAddress, denom string) sdk.Coin {
	return sdk.Coin{Denom: denom, Amount: b.get(addr.String(), denom)}
}

func (b *Bank) ModuleBalance(module, denom string) sdkmath.Int { return b.get("module:"+module, denom) }

func (b *Bank) move(from, to string, amt sdk.Coins) error {
	for _, c := range amt {
		if c.Amount.IsNegative() {
			return delegationtypes.ErrAmountIsNotPositive
		}
		if b.get(from, c.Denom).LT(c.Amount) {
			return assetstypes.ErrSubAmountIsMoreThanOrigin
		}
	}
	for _, c := range amt {
		b.Set(from, c.Denom, b.get(from, c.Denom).Sub(c.Amount))
		b.Set(to, c.Denom, b.get(to, c.Denom).Add(c.Amount))
	}
	return nil
}

func (b *Bank) DelegateCoinsFromAccountToModule(_ sdk.Context, sender sdk.AccAddress, module string, amt sdk.Coins) error {
	return b.move(sender.String(), "module:"+module, amt)
}

func (b *Bank) UndelegateCoinsFromModuleToAccount(_ sdk.Context, module string, rcpt sdk.AccAddress, amt sdk.Coins) error {
	return b.move("module:"+module, rcpt.String(), amt)
}

type AccStub struct{}

func (AccStub) GetSequence(_ sdk.Context, _ sdk.AccAddress) (uint64, error) { return 0, nil }

// OracleStub implements assetstypes.OracleKeeper.
type OracleStub struct{}

func (OracleStub) GetSpecifiedAssetsPrice(_ sdk.Context, _ string) (oracletypes.Price, error) {
	return oracletypes.Price{Value: sdkmath.NewInt(1), Decimal: 0}, nil
}
func (OracleStub) RegisterNewTokenAndSetTokenFeeder(_ sdk.Context, _ *oracletypes.OracleInfo) error {
	return nil
}
func (OracleStub) UpdateNSTValidatorListForStaker(_ sdk.Context, _, _, _ string, _ sdkmath.Int) error {
	return nil
}

// HookRec records delegation hook calls; AfterUndelegationStarted can be made to fail.
type HookRec struct {
	Delegations   int
	Undelegations int
	FailUndeleg   bool
}

func (h *HookRec) AfterDelegation(_ sdk.Context, _ sdk.AccAddress) { h.Delegations++ }
func (h *HookRec) AfterUndelegationStarted(_ sdk.Context, _ sdk.AccAddress, _ []byte) error {
	h.Undelegations++
	if h.FailUndeleg {
		return delegationtypes.ErrOperatorIsFrozen
	}
	return nil
}

// ---- environment ----

type Env struct {
	AKey, DKey storetypes.StoreKey
	Cdc        codec.BinaryCodec
	Ctx    sdk.Context
	Assets assetskeeper.Keeper
	Deleg  *delegationkeeper.Keeper
	Bank   *Bank
	Ops    *OpStub
	Hooks  *HookRec
}

// NewLedgerEnv wires assets + delegation keepers over empty stores at the given height.
func NewLedgerEnv(height int64, nOperators int) *Env { return NewLedgerEnvAt(height, nOperators) }

// NewLedgerEnvAt is NewLedgerEnv with a (possibly symbolic) height.
func NewLedgerEnvAt(height int64, nOperators int) *Env {
	akey := verifrt.StoreKey(assetstypes.StoreKey)
	dkey := verifrt.StoreKey(delegationtypes.StoreKey)
	cdc := verifrt.Codec()
	ctx := verifrt.NewContext(height, 1700000000, ChainID)
	bank := NewBank()
	ops := &OpStub{NOperators: nOperators, Unbonding: 10}
	e := &Env{Ctx: ctx, Bank: bank, Ops: ops, Hooks: &HookRec{}, AKey: akey, DKey: dkey, Cdc: cdc}
	dk := &delegationkeeper.Keeper{}
	e.Assets = assetskeeper.NewKeeper(akey, cdc, OracleStub{}, bank, dk, Authority)
	*dk = delegationkeeper.NewKeeper(dkey, cdc, e.Assets, delegationtypes.VirtualSlashKeeper{}, ops, AccStub{}, bank)
	dk.SetHooks(e.Hooks)
	e.Deleg = dk
	return e
}

// RegisterAsset registers the client chain and a staking asset with the given total.
func (e *Env) RegisterAsset(addrHex string, decimals uint32, total sdkmath.Int) {
	_ = e.Assets.SetClientChainInfo(e.Ctx, &assetstypes.ClientChainInfo{Name: "eth", LayerZeroChainID: LzID, AddressLength: 20})
	err := e.Assets.SetStakingAssetInfo(e.Ctx, &assetstypes.StakingAssetInfo{
		AssetBasicInfo:     assetstypes.AssetInfo{Name: "T", Symbol: "T", Address: addrHex, Decimals: decimals, LayerZeroChainID: LzID},
		StakingTotalAmount: total,
	})
	verifrt.Assume(err == nil)
}

// ---- direct pre-state writers (bypass the Update* setters, whose zero/negative checks would
// only multiply paths; the bytes written are exactly what the setters would write) ----

func (e *Env) PutOperatorAsset(o int, assetID string, info assetstypes.OperatorAssetInfo) {
	st := prefix.NewStore(e.Ctx.KVStore(e.AKey), assetstypes.KeyPrefixOperatorAssetInfos)
	st.Set(assetstypes.GetJoinedStoreKey(OperatorBech[o], assetID), e.Cdc.MustMarshal(&info))
}

func (e *Env) PutStakerAsset(s int, assetID string, info assetstypes.StakerAssetInfo) {
	st := prefix.NewStore(e.Ctx.KVStore(e.AKey), assetstypes.KeyPrefixReStakerAssetInfos)
	st.Set(assetstypes.GetJoinedStoreKey(StakerID(s), assetID), e.Cdc.MustMarshal(&info))
}

func (e *Env) PutDelegation(s, o int, assetID string, d delegationtypes.DelegationAmounts) {
	st := prefix.NewStore(e.Ctx.KVStore(e.DKey), delegationtypes.KeyPrefixRestakerDelegationInfo)
	st.Set(assetstypes.GetJoinedStoreKey(StakerID(s), assetID, OperatorBech[o]), e.Cdc.MustMarshal(&d))
}
