//go:build verif

package verifenv

import (
	sdkmath "cosmossdk.io/math"
	"github.com/cosmos/cosmos-sdk/store/prefix"
	sdk "github.com/cosmos/cosmos-sdk/types"

	assetstypes "github.com/ExocoreNetwork/exocore/x/assets/types"
	delegationtypes "github.com/ExocoreNetwork/exocore/x/delegation/types"

	"github.com/ExocoreNetwork/exocore/verifrt"
)

// Two transaction hashes: records created by one multi-operator message share a hash.
var TxHashes = []string{
	"0x1111111111111111111111111111111111111111111111111111111111111111",
	"0x2222222222222222222222222222222222222222222222222222222222222222",
}

// Rec describes one pending undelegation record placed in the pre-state.
type Rec struct {
	S, O     int
	Record   delegationtypes.UndelegationRecord
	Key      []byte
	Hold     uint64
	Distinct bool
}

// AddRecord writes a symbolic pending undelegation record (through the real three-way indexed
// setter) and adds its amount to the pending/wait figures so that the aggregates stay equal to the
// sum over live records. heightBits bounds block heights, nonceBits bounds nonces.
func (l *Ledger) AddRecord(tag string, s, o int, heightBits, nonceBits int) *Rec {
	return l.addRecord(tag, s, o, heightBits, nonceBits, 0, false)
}

// AddRecordWithNonce is AddRecord with a concrete nonce.
func (l *Ledger) AddRecordWithNonce(tag string, s, o int, heightBits int, nonce uint64) *Rec {
	return l.addRecord(tag, s, o, heightBits, 64, nonce, true)
}

func (l *Ledger) addRecord(tag string, s, o int, heightBits, nonceBits int, fixedNonce uint64, fixed bool) *Rec {
	e, ctx := l.E, l.E.Ctx
	amount := l.amt(tag + "_amount")
	verifrt.Assume(amount.IsPositive())
	actual := l.amt(tag + "_actual")
	verifrt.Assume(actual.LTE(amount))
	start := verifrt.U64(tag + "_start")
	complete := verifrt.U64(tag + "_complete")
	nonce := fixedNonce
	if !fixed {
		nonce = verifrt.U64(tag + "_nonce")
	}
	h := uint64(ctx.BlockHeight())
	verifrt.Assume(verifrt.All(start <= h, complete >= h, complete < (uint64(1)<<uint(heightBits)), fixed || nonce < (uint64(1)<<uint(nonceBits%64))))
	tx := TxHashes[verifrt.Choice(tag+"_tx", len(TxHashes))]
	rec := delegationtypes.UndelegationRecord{
		StakerID: StakerID(s), AssetID: l.AssetID, OperatorAddr: OperatorBech[o], TxHash: tx, IsPending: true,
		BlockNumber: start, CompleteBlockNumber: complete, LzTxNonce: nonce, Amount: amount, ActualCompletedAmount: actual,
	}
	verifrt.Assume(e.Deleg.SetUndelegationRecords(ctx, []delegationtypes.UndelegationRecord{rec}) == nil)
	key := delegationtypes.GetUndelegationRecordKey(start, nonce, tx, OperatorBech[o])
	// aggregates
	d, err := e.Deleg.GetSingleDelegationInfo(ctx, StakerID(s), l.AssetID, OperatorBech[o])
	if err != nil {
		d = &delegationtypes.DelegationAmounts{UndelegatableShare: sdkmath.LegacyZeroDec(), WaitUndelegationAmount: sdkmath.ZeroInt()}
	}
	d.WaitUndelegationAmount = d.WaitUndelegationAmount.Add(amount)
	e.PutDelegation(s, o, l.AssetID, *d)
	oi, err := e.Assets.GetOperatorSpecifiedAssetInfo(ctx, OperatorAddr(o), l.AssetID)
	if err != nil {
		oi = &assetstypes.OperatorAssetInfo{TotalAmount: sdkmath.ZeroInt(), PendingUndelegationAmount: sdkmath.ZeroInt(), TotalShare: sdkmath.LegacyZeroDec(), OperatorShare: sdkmath.LegacyZeroDec()}
	}
	oi.PendingUndelegationAmount = oi.PendingUndelegationAmount.Add(amount)
	e.PutOperatorAsset(o, l.AssetID, *oi)
	si, err := e.Assets.GetStakerSpecifiedAssetInfo(ctx, StakerID(s), l.AssetID)
	if err != nil {
		si = &assetstypes.StakerAssetInfo{TotalDepositAmount: sdkmath.ZeroInt(), WithdrawableAmount: sdkmath.ZeroInt(), PendingUndelegationAmount: sdkmath.ZeroInt()}
	}
	si.PendingUndelegationAmount = si.PendingUndelegationAmount.Add(amount)
	e.PutStakerAsset(s, l.AssetID, *si)
	return &Rec{S: s, O: o, Record: rec, Key: key}
}

// SetHold writes a hold count for a record directly.
func (e *Env) SetHold(key []byte, n uint64) {
	st := e.Ctx.KVStore(e.DKey)
	st.Set(delegationtypes.GetUndelegationOnHoldKey(key), sdk.Uint64ToBigEndian(n))
}

// RecordLive reports whether the record is present in the primary store, and returns it.
func (e *Env) RecordLive(key []byte) (*delegationtypes.UndelegationRecord, bool) {
	st := prefix.NewStore(e.Ctx.KVStore(e.DKey), delegationtypes.KeyPrefixUndelegationInfo)
	bz := st.Get(key)
	if bz == nil {
		return nil, false
	}
	var r delegationtypes.UndelegationRecord
	e.Cdc.MustUnmarshal(bz, &r)
	return &r, true
}

// IndexedAt reports whether the pending index lists the record key at (height, nonce), and
// whether the staker index lists it.
func (e *Env) PendingIndexHas(height, nonce uint64, key []byte) bool {
	st := prefix.NewStore(e.Ctx.KVStore(e.DKey), delegationtypes.KeyPrefixPendingUndelegations)
	bz := st.Get(delegationtypes.GetPendingUndelegationRecordKey(height, nonce))
	return bz != nil && string(bz) == string(key)
}

func (e *Env) StakerIndexHas(stakerID, assetID string, nonce uint64, key []byte) bool {
	st := prefix.NewStore(e.Ctx.KVStore(e.DKey), delegationtypes.KeyPrefixStakerUndelegationInfo)
	bz := st.Get(delegationtypes.GetStakerUndelegationRecordKey(stakerID, assetID, nonce))
	return bz != nil && string(bz) == string(key)
}
