#!/bin/bash
# usage: tools_native_build.sh <prop>  -- compiles the harness packages of a property natively (tag verif) via overlay
prop=$1
export GOFLAGS=-mod=mod GOPROXY=off GOSUMDB=off GOTOOLCHAIN=local
tmp=$(mktemp -d)
python3 - $prop $tmp <<'PY'
import json,sys,os,glob
prop,tmp=sys.argv[1],sys.argv[2]
spec=json.load(open(f'/verif/harness/{prop}/spec.json'))
repl={}
for sh in ['verifrt','verifenv']:
    for f in glob.glob(f'/verif/{sh}/*.go'): repl[f'/repo/{sh}/'+os.path.basename(f)]=f
pk=set()
for f in spec['files']:
    repl[os.path.join('/repo',f['pkg'],'zz_verif_'+os.path.basename(f['src']))]=os.path.normpath(os.path.join(f'/verif/harness/{prop}',f['src']))
    pk.add('./'+f['pkg'])
json.dump({'Replace':repl},open(tmp+'/ov.json','w'))
open(tmp+'/pkgs','w').write(' '.join(sorted(pk)))
PY
cd /repo && go build -tags verif -overlay $tmp/ov.json ./verifrt ./verifenv $(cat $tmp/pkgs) && echo "native build ok: $(cat $tmp/pkgs)"
rm -rf $tmp
