#!/bin/bash
# usage: tools_verify_seed.sh <id> <worktree> <pkgdir> <go test args...>
# confirms: demo FAILS with patch applied, PASSES on original; stores result in /tmp/seed-out/<id>/verify.log
id=$1; wt=$2; pkg=$3; shift 3
export GOFLAGS=-mod=mod GOPROXY=off GOSUMDB=off GOTOOLCHAIN=local
out=/tmp/seed-out/$id
cd $wt || exit 2
git checkout -q -- . ; rm -f $pkg/zz_seed_demo_test.go
cp $out/zz_seed_demo_test.go $pkg/
echo "== original" > $out/verify.log
timeout 2400 go test -vet=off -count=1 $pkg/ "$@" >> $out/verify.log 2>&1; r0=$?
git apply $out/patch.diff || { echo "PATCH DOES NOT APPLY" >> $out/verify.log; exit 2; }
go build ./... >> $out/verify.log 2>&1 || { echo "BUILD FAILS" >> $out/verify.log; exit 2; }
echo "== patched" >> $out/verify.log
timeout 2400 go test -vet=off -count=1 $pkg/ "$@" >> $out/verify.log 2>&1; r1=$?
echo "RESULT id=$id original_rc=$r0 patched_rc=$r1" | tee -a $out/verify.log
