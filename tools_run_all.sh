#!/bin/bash
# runs every claimed check (quick by default) and prints a one-line summary each
tier=${1:-quick}
cd /verif
for p in $(python3 -c "import json; print(' '.join(c['property_id'] for c in json.load(open('MANIFEST.json'))['checks']))"); do
  s=$(date +%s); bin/check $p $tier > /tmp/runall-$p.log 2>&1; rc=$?; e=$(date +%s)
  echo "$p rc=$rc $((e-s))s $(grep -cE '^INCONCLUSIVE' /tmp/runall-$p.log) inconclusive $(grep -cE '^VIOLATION' /tmp/runall-$p.log) violations $(grep -cE '^KNOWN' /tmp/runall-$p.log) known"
done
