#!/usr/bin/env python3
# regenerates MANIFEST.json from harness/*/spec.json + manifest_meta.json
import json, os, glob
V='/verif'
meta=json.load(open(f'{V}/manifest_meta.json'))
props=[json.loads(l)['id'] for l in open(f'{V}/properties.jsonl')]
checks=[]; na=[]
for p in props:
    m=meta['properties'].get(p,{})
    spec=f'{V}/harness/{p}/spec.json'
    if os.path.exists(spec) and m.get('claimed'):
        checks.append({
            "property_id":p,
            "quick_cmd":f"bin/check {p} quick",
            "thorough_cmd":f"bin/check {p} thorough",
            "evidence_file":f"evidence/{p}.json",
            "replay_cmd_template":"bin/replay {path}",
            "engine":"symx",
            "level_claimed":{"category":"model_checking","text":m['level_text'],"design_ref":m.get('design_ref','DESIGN.md §5 '+p)},
            "level_note":m['level_note'],
            "technique":m.get('technique',"bounded symbolic execution of the real Go code (go/ssa -> SMT), z3 decides every assertion; counterexamples replayed natively")
        })
    else:
        na.append({"property_id":p,"reason":m.get('na_reason','no solver-based check built yet in this session; not claimed')})
man={
 "version":1,
 "setup_cmd":"bin/setup",
 "hooks":{"guard":"verif","enable":"harness and runtime files carry //go:build verif and are injected through go/packages and `go test -overlay`; /repo is not modified","baseline_off_cmd":meta['baseline_off_cmd'],"source_commits":[],"add_only":True},
 "engines":[{"name":"symx","path":"engine","serves_properties":[c['property_id'] for c in checks],"kind_free_text":"path-exploring symbolic executor for Go SSA (golang.org/x/tools/go/ssa) producing SMT-LIB2 (Int + BitVec) for z3 5.1.0; native replay of models via go test -overlay"}],
 "checks":checks,
 "notes":meta['notes'],
 "not_applicable":na
}
json.dump(man,open(f'{V}/MANIFEST.json','w'),indent=1)
print(len(checks),'checks',len(na),'n/a')
