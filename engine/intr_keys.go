package main

// Intrinsics for consensus keys: cometbft proto PublicKey, sdk ed25519 keys, codec Any,
// base64, and exact JSON decoding of concrete text into flat string structs.

import (
	"crypto/sha256"
	"encoding/base64"
	"encoding/json"
	"fmt"
	"go/types"
	"reflect"
	"strings"
)

const (
	pkTmCrypto = "github.com/cometbft/cometbft/proto/tendermint/crypto"
	pkSdkEd    = "github.com/cosmos/cosmos-sdk/crypto/keys/ed25519"
	pkCodecT   = "github.com/cosmos/cosmos-sdk/codec/types"
	pkCryptoCd = "github.com/cosmos/cosmos-sdk/crypto/codec"
)

func (ex *Exec) namedType(pkg, name string) types.Type {
	p := ex.w.prog.ImportedPackage(pkg)
	if p == nil {
		ex.unmodelled("package not in program: " + pkg)
	}
	t := p.Type(name)
	if t == nil {
		ex.unmodelled("type not found: " + pkg + "." + name)
	}
	return t.Type()
}

func fieldIndex(t types.Type, name string) int {
	st := t.Underlying().(*types.Struct)
	for i := 0; i < st.NumFields(); i++ {
		if st.Field(i).Name() == name {
			return i
		}
	}
	panic(engineErr("no field " + name + " in " + t.String()))
}

func (ex *Exec) structWith(t types.Type, fields map[string]Val) StructV {
	sv := ex.zero(t).(StructV)
	f := append([]Val{}, sv.F...)
	for n, v := range fields {
		f[fieldIndex(t, n)] = v
	}
	return StructV{F: f}
}

// tmProtoKey builds tmprotocrypto.PublicKey{Sum: &PublicKey_Ed25519{Ed25519: key}}.
func (ex *Exec) tmProtoKey(key []*Term) StructV {
	inner := ex.namedType(pkTmCrypto, "PublicKey_Ed25519")
	iv := ex.structWith(inner, map[string]Val{"Ed25519": ex.mkBytes(key)})
	return ex.structWith(ex.namedType(pkTmCrypto, "PublicKey"),
		map[string]Val{"Sum": IfaceV{T: types.NewPointer(inner), V: PtrV{C: ex.newCell(iv)}}})
}

// ed25519 bytes of a tmprotocrypto.PublicKey value; ok=false when Sum is not the ed25519 variant.
func (ex *Exec) tmProtoKeyBytes(pk StructV) ([]*Term, bool) {
	t := ex.namedType(pkTmCrypto, "PublicKey")
	sum, _ := pk.F[fieldIndex(t, "Sum")].(IfaceV)
	if sum.T == nil {
		return nil, false
	}
	pt, ok := sum.T.(*types.Pointer)
	if !ok || typeKey(pt.Elem()) != pkTmCrypto+".PublicKey_Ed25519" {
		return nil, false
	}
	p := sum.V.(PtrV)
	if p.C == nil {
		return nil, false
	}
	in := ex.load(p).(StructV)
	bs := in.F[fieldIndex(pt.Elem(), "Ed25519")]
	if sv, ok := bs.(SliceV); ok && sv.Nil {
		return nil, true
	}
	return ex.bytesOf(bs), true
}

func (ex *Exec) sdkEdKey(key []*Term) IfaceV {
	t := ex.namedType(pkSdkEd, "PubKey")
	sv := ex.structWith(t, map[string]Val{"Key": ex.mkBytes(key)})
	return IfaceV{T: types.NewPointer(t), V: PtrV{C: ex.newCell(sv)}}
}

func (ex *Exec) sdkEdKeyBytes(v Val) []*Term {
	p, ok := v.(PtrV)
	if !ok {
		if iv, ok2 := v.(IfaceV); ok2 {
			p, ok = iv.V.(PtrV)
		}
	}
	if !ok || p.C == nil {
		ex.goPanic("nil pointer dereference (ed25519.PubKey)")
	}
	sv := ex.load(p).(StructV)
	k := sv.F[fieldIndex(ex.namedType(pkSdkEd, "PubKey"), "Key")]
	if s, ok := k.(SliceV); ok && s.Nil {
		return nil
	}
	return ex.bytesOf(k)
}

// protoTextBytes: the quoted form gogoproto's text marshaller gives a bytes field.
func protoTextBytes(b string) string {
	var sb strings.Builder
	sb.WriteByte('"')
	for i := 0; i < len(b); i++ {
		switch c := b[i]; c {
		case '\n':
			sb.WriteString(`\n`)
		case '\r':
			sb.WriteString(`\r`)
		case '\t':
			sb.WriteString(`\t`)
		case '"':
			sb.WriteString(`\"`)
		case '\\':
			sb.WriteString(`\\`)
		default:
			if c >= 0x20 && c < 0x7f {
				sb.WriteByte(c)
			} else {
				fmt.Fprintf(&sb, "\\%03o", c)
			}
		}
	}
	sb.WriteByte('"')
	return sb.String()
}

func init() {
	const PK = "(*" + pkTmCrypto + ".PublicKey)."
	reg(PK+"GetEd25519", func(ex *Exec, a []Val) Val {
		p := a[0].(PtrV)
		if p.C == nil {
			return SliceV{Nil: true}
		}
		bs, ok := ex.tmProtoKeyBytes(ex.load(p).(StructV))
		if !ok || bs == nil {
			return SliceV{Nil: true}
		}
		return ex.mkBytes(bs)
	})
	reg(PK+"Equal", func(ex *Exec, a []Val) Val {
		p := a[0].(PtrV)
		var q PtrV
		switch o := a[1].(type) {
		case IfaceV:
			if o.T == nil {
				return ex.tf.Bool(p.C == nil)
			}
			switch ov := o.V.(type) {
			case PtrV:
				q = ov
			case StructV:
				q = PtrV{C: ex.newCell(ov)}
			default:
				return ex.tf.F
			}
		case PtrV:
			q = o
		}
		if p.C == nil || q.C == nil {
			return ex.tf.Bool(p.C == nil && q.C == nil)
		}
		x, okx := ex.tmProtoKeyBytes(ex.load(p).(StructV))
		y, oky := ex.tmProtoKeyBytes(ex.load(q).(StructV))
		if !okx || !oky {
			ex.unmodelled("PublicKey.Equal on a non-ed25519 key")
		}
		if len(x) != len(y) {
			return ex.tf.F
		}
		return ex.bytesEq(x, y)
	})
	reg(PK+"String", func(ex *Exec, a []Val) Val {
		p := a[0].(PtrV)
		if p.C == nil {
			return ex.mkStr("nil")
		}
		bs, ok := ex.tmProtoKeyBytes(ex.load(p).(StructV))
		if !ok {
			return ex.mkStr("")
		}
		cs, conc := concreteBytes(bs)
		if !conc {
			ex.unmodelled("text form of a symbolic public key")
		}
		return ex.mkStr("ed25519:" + protoTextBytes(cs) + " ")
	})
	reg(pkCryptoCd+".FromTmProtoPublicKey", func(ex *Exec, a []Val) Val {
		bs, ok := ex.tmProtoKeyBytes(a[0].(StructV))
		if !ok {
			return TupleV{IfaceV{}, ex.newErr("cryptocodec", "cannot convert to sdk.PubKey")}
		}
		return TupleV{ex.sdkEdKey(bs), IfaceV{}}
	})
	reg(pkCryptoCd+".ToTmProtoPublicKey", func(ex *Exec, a []Val) Val {
		iv := a[0].(IfaceV)
		if iv.T == nil {
			ex.goPanic("nil pointer dereference (ToTmProtoPublicKey)")
		}
		if pt, ok := iv.T.(*types.Pointer); !ok || typeKey(pt.Elem()) != pkSdkEd+".PubKey" {
			return TupleV{ex.zero(ex.namedType(pkTmCrypto, "PublicKey")), ex.newErr("cryptocodec", "cannot convert to Tendermint public key")}
		}
		return TupleV{ex.tmProtoKey(ex.sdkEdKeyBytes(iv.V)), IfaceV{}}
	})
	// cometbft's own ed25519 key type (a byte slice) as produced by ToTmPubKeyInterface
	reg(pkCryptoCd+".ToTmPubKeyInterface", func(ex *Exec, a []Val) Val {
		iv := a[0].(IfaceV)
		if iv.T == nil {
			ex.goPanic("nil pointer dereference (ToTmPubKeyInterface)")
		}
		if pt, ok := iv.T.(*types.Pointer); !ok || typeKey(pt.Elem()) != pkSdkEd+".PubKey" {
			return TupleV{IfaceV{}, ex.newErr("cryptocodec", "cannot convert to Tendermint public key")}
		}
		t := ex.namedType("github.com/cometbft/cometbft/crypto/ed25519", "PubKey")
		return TupleV{IfaceV{T: t, V: ex.mkBytes(ex.sdkEdKeyBytes(iv.V))}, IfaceV{}}
	})
	reg("(github.com/cometbft/cometbft/crypto/ed25519.PubKey).Bytes", func(ex *Exec, a []Val) Val { return a[0] })
	const ED = "(*" + pkSdkEd + ".PubKey)."
	reg(ED+"Address", func(ex *Exec, a []Val) Val {
		bs := ex.sdkEdKeyBytes(a[0])
		if len(bs) != 32 {
			ex.goPanic("pubkey is incorrect size")
		}
		if cs, ok := concreteBytes(bs); ok {
			sum := sha256.Sum256([]byte(cs))
			return ex.mkBytes(ex.constBytes(string(sum[:20])))
		}
		return ex.mkBytes(ex.uninterpretedHash("sha256", bs, 32)[:20])
	})
	reg(ED+"Bytes", func(ex *Exec, a []Val) Val { return ex.mkBytes(ex.sdkEdKeyBytes(a[0])) })
	reg(ED+"Type", func(ex *Exec, a []Val) Val { return ex.mkStr("ed25519") })
	reg(ED+"Equals", func(ex *Exec, a []Val) Val {
		o := a[1].(IfaceV)
		if o.T == nil {
			return ex.tf.F
		}
		if pt, ok := o.T.(*types.Pointer); !ok || typeKey(pt.Elem()) != pkSdkEd+".PubKey" {
			return ex.tf.F
		}
		x, y := ex.sdkEdKeyBytes(a[0]), ex.sdkEdKeyBytes(o.V)
		if len(x) != len(y) {
			return ex.tf.F
		}
		return ex.bytesEq(x, y)
	})
	// codec Any: only the cached value matters to the code under test
	reg(pkCodecT+".NewAnyWithValue", func(ex *Exec, a []Val) Val {
		iv := a[0].(IfaceV)
		if iv.T == nil {
			return TupleV{PtrV{}, ex.newErr("codectypes", "Expecting non nil value to create a new Any")}
		}
		t := ex.namedType(pkCodecT, "Any")
		url := "/opaque"
		if pt, ok := iv.T.(*types.Pointer); ok && typeKey(pt.Elem()) == pkSdkEd+".PubKey" {
			url = "/cosmos.crypto.ed25519.PubKey"
		}
		sv := ex.structWith(t, map[string]Val{"TypeUrl": ex.mkStr(url), "cachedValue": IfaceV{T: iv.T, V: iv.V}})
		return TupleV{PtrV{C: ex.newCell(sv)}, IfaceV{}}
	})
	reg("(*"+pkCodecT+".Any).GetCachedValue", func(ex *Exec, a []Val) Val {
		p := a[0].(PtrV)
		if p.C == nil {
			return IfaceV{}
		}
		sv := ex.load(p).(StructV)
		return sv.F[fieldIndex(ex.namedType(pkCodecT, "Any"), "cachedValue")]
	})
	// base64 (standard encoding; the receiver is base64.StdEncoding in the code under test)
	reg("(*encoding/base64.Encoding).DecodeString", func(ex *Exec, a []Val) Val {
		s := ex.argStr(a[1], "base64 input")
		b, err := base64.StdEncoding.DecodeString(s)
		if err != nil {
			return TupleV{SliceV{Nil: true}, ex.newErr("base64", "illegal base64 data")}
		}
		return TupleV{ex.mkBytes(ex.constBytes(string(b))), IfaceV{}}
	})
	reg("(*encoding/base64.Encoding).EncodeToString", func(ex *Exec, a []Val) Val {
		cs, ok := concreteBytes(ex.bytesOf(a[1]))
		if !ok {
			ex.unmodelled("base64 of symbolic bytes")
		}
		return ex.mkStr(base64.StdEncoding.EncodeToString([]byte(cs)))
	})
}

// jsonIntoFlatStruct decodes concrete JSON text into a struct whose fields are all strings
// (exactly as encoding/json does: tag names, case-insensitive match, unknown keys ignored).
// handled=false when the target is not such a struct.
func (ex *Exec) jsonIntoFlatStruct(text string, p PtrV, elem types.Type) (Val, bool) {
	st, ok := elem.Underlying().(*types.Struct)
	if !ok {
		return nil, false
	}
	for i := 0; i < st.NumFields(); i++ {
		b, ok := st.Field(i).Type().Underlying().(*types.Basic)
		if !ok || b.Kind() != types.String || !st.Field(i).Exported() {
			return nil, false
		}
	}
	var m map[string]json.RawMessage
	if err := json.Unmarshal([]byte(text), &m); err != nil {
		return ex.newErr("json", "cannot unmarshal input into struct"), true
	}
	cur := ex.load(p).(StructV)
	f := append([]Val{}, cur.F...)
	for i := 0; i < st.NumFields(); i++ {
		name := st.Field(i).Name()
		if tag := reflect.StructTag(st.Tag(i)).Get("json"); tag != "" {
			if n := strings.Split(tag, ",")[0]; n == "-" {
				continue
			} else if n != "" {
				name = n
			}
		}
		raw, ok := m[name]
		if !ok {
			for k, v := range m {
				if strings.EqualFold(k, name) {
					raw, ok = v, true
				}
			}
		}
		if !ok || string(raw) == "null" {
			continue
		}
		var sv string
		if err := json.Unmarshal(raw, &sv); err != nil {
			return ex.newErr("json", "cannot unmarshal non-string into string field"), true
		}
		f[i] = ex.mkStr(sv)
	}
	ex.store(p, StructV{F: f})
	return IfaceV{}, true
}

// ---------- x/staking types.Validator (built by the operator module for the SDK's staking interface) ----------

const pkStaking = "github.com/cosmos/cosmos-sdk/x/staking/types"

func init() {
	reg(pkStaking+".NewValidator", func(ex *Exec, a []Val) Val {
		// NewValidator(operator sdk.ValAddress, pubKey cryptotypes.PubKey, description Description)
		pk := a[1].(IfaceV)
		if pk.T == nil {
			return TupleV{ex.zero(ex.namedType(pkStaking, "Validator")), ex.newErr("codectypes", "Expecting non nil value to create a new Any")}
		}
		anyV := intrinsics[pkCodecT+".NewAnyWithValue"](ex, []Val{pk}).(TupleV)
		vt := ex.namedType(pkStaking, "Validator")
		oper := ex.bech32Str("exovaloper", a[0])
		v := ex.structWith(vt, map[string]Val{
			"OperatorAddress": oper, "ConsensusPubkey": anyV[0], "Description": a[2],
			"Tokens": BigV{T: ex.tf.Inti(0)}, "DelegatorShares": DecV{T: ex.tf.Inti(0)}, "MinSelfDelegation": BigV{T: ex.tf.Inti(1)},
			"Status": ex.tf.BVu(1, 32), // Unbonded
		})
		return TupleV{v, IfaceV{}}
	})
	getOperator := func(ex *Exec, a []Val) Val {
		v := a[0].(StructV)
		s := v.F[fieldIndex(ex.namedType(pkStaking, "Validator"), "OperatorAddress")]
		if cs, ok := ex.concreteStr(s); ok && cs == "" {
			return SliceV{Nil: true}
		}
		r := ex.fromBech32("exovaloper", s).(TupleV)
		if iv := r[1].(IfaceV); iv.T != nil {
			ex.goPanic("Validator.GetOperator: invalid operator address")
		}
		return r[0]
	}
	reg("("+pkStaking+".Validator).GetOperator", getOperator)
	reg("("+pkStaking+".Validator).ConsPubKey", func(ex *Exec, a []Val) Val {
		v := a[0].(StructV)
		p, _ := v.F[fieldIndex(ex.namedType(pkStaking, "Validator"), "ConsensusPubkey")].(PtrV)
		if p.C == nil {
			return TupleV{IfaceV{}, ex.newErr("sdkerrors", "expecting cryptotypes.PubKey, got nil")}
		}
		cached := intrinsics["(*"+pkCodecT+".Any).GetCachedValue"](ex, []Val{p}).(IfaceV)
		if cached.T == nil {
			return TupleV{IfaceV{}, ex.newErr("sdkerrors", "expecting cryptotypes.PubKey")}
		}
		return TupleV{cached, IfaceV{}}
	})
	reg("("+pkStaking+".Validator).IsJailed", func(ex *Exec, a []Val) Val {
		return a[0].(StructV).F[fieldIndex(ex.namedType(pkStaking, "Validator"), "Jailed")]
	})
	reg("("+pkStaking+".Validator).GetConsensusPower", func(ex *Exec, a []Val) Val {
		// ConsensusPower: zero unless bonded, else Tokens.Quo(r).Int64()
		vt := ex.namedType(pkStaking, "Validator")
		v := a[0].(StructV)
		status := v.F[fieldIndex(vt, "Status")].(*Term)
		if !ex.Branch(ex.tf.Eq(status, ex.tf.BVu(3, 32))) {
			return ex.tf.BVu(0, 64)
		}
		tokens := ex.bigArg(v.F[fieldIndex(vt, "Tokens")], "GetConsensusPower")
		r := ex.bigArg(a[1], "GetConsensusPower")
		if ex.Branch(ex.tf.Eq(r, ex.tf.Inti(0))) {
			ex.goPanic("division by zero")
		}
		q := ex.truncDiv(tokens, r)
		if !ex.Branch(ex.isInt64(q)) {
			ex.goPanic("Int64() out of bound")
		}
		return ex.tf.Int2BV(q, 64)
	})
	reg("("+pkStaking+".Validator).GetTokens", func(ex *Exec, a []Val) Val {
		return a[0].(StructV).F[fieldIndex(ex.namedType(pkStaking, "Validator"), "Tokens")]
	})
}
