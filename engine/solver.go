package main

// One incremental solver process per worker. Terms are introduced with define-fun on first
// use; each path starts with (reset) so nothing leaks between paths.

import (
	"bufio"
	"fmt"
	"io"
	"math/big"
	"os"
	"os/exec"
	"strings"
	"sync/atomic"
	"time"
)

type Solver struct {
	cmd       *exec.Cmd
	in        io.WriteCloser
	out       *bufio.Reader
	bin       string
	timeoutMs int
	defined   map[int]bool
	declared  map[string]bool
	buf       strings.Builder
	// stats
	Queries    int
	Sat        int
	Unsat      int
	Unknown    int
	Errors     int
	Time       time.Duration
	LastError  string
	Fallbacks  int
	feasMs     int
	noFallback bool
	curMs      int
	vars       []*Term
	log        io.Writer
	transcript strings.Builder
}

var dumpDir = os.Getenv("SYMX_DUMP_UNKNOWN")
var dumpSeq int32

func NewSolver(bin string, timeoutMs int) (*Solver, error) {
	s := &Solver{bin: bin, timeoutMs: timeoutMs}
	if err := s.start(); err != nil {
		return nil, err
	}
	if p := os.Getenv("SYMX_SMTLOG"); p != "" {
		fh, _ := os.OpenFile(fmt.Sprintf("%s.%d", p, os.Getpid()), os.O_CREATE|os.O_WRONLY|os.O_APPEND, 0o644)
		s.log = fh
	}
	return s, nil
}

func (s *Solver) start() error {
	args := []string{"-in"}
	if strings.Contains(s.bin, "cvc5") {
		args = []string{"--incremental", "--lang=smt2", "--produce-models"}
	}
	s.cmd = exec.Command(s.bin, args...)
	in, err := s.cmd.StdinPipe()
	if err != nil {
		return err
	}
	out, err := s.cmd.StdoutPipe()
	if err != nil {
		return err
	}
	s.cmd.Stderr = os.Stderr
	if err := s.cmd.Start(); err != nil {
		return err
	}
	s.in = in
	s.out = bufio.NewReaderSize(out, 1<<20)
	s.Reset()
	return nil
}

func (s *Solver) Close() {
	if s.cmd != nil {
		s.in.Close()
		s.cmd.Process.Kill()
		s.cmd.Wait()
		s.cmd = nil
	}
}

func (s *Solver) send(str string) {
	s.buf.WriteString(str)
	s.buf.WriteByte('\n')
}

func (s *Solver) flush() {
	if s.log != nil {
		io.WriteString(s.log, s.buf.String())
	}
	s.transcript.WriteString(s.buf.String())
	io.WriteString(s.in, s.buf.String())
	s.buf.Reset()
}

func (s *Solver) Reset() {
	s.transcript.Reset()
	s.defined = map[int]bool{}
	s.declared = map[string]bool{}
	s.vars = nil
	s.send("(reset)")
	if !strings.Contains(s.bin, "cvc5") {
		s.send(fmt.Sprintf("(set-option :timeout %d)", s.timeoutMs))
	} else {
		s.send("(set-logic ALL)")
	}
}

// define makes sure t and all its subterms are known to the solver; returns the ref.
func (s *Solver) define(t *Term) string {
	switch t.Op {
	case "const":
		return constLit(t)
	case "var":
		if !s.declared[t.Name] {
			s.declared[t.Name] = true
			s.vars = append(s.vars, t)
			s.send(fmt.Sprintf("(declare-const %s %s)", smtName(t.Name), t.Sort))
		}
		return smtName(t.Name)
	}
	if s.defined[t.ID] {
		return ref(t)
	}
	// iterative post-order to avoid deep recursion on long chains
	type fr struct {
		t *Term
		i int
	}
	stack := []fr{{t, 0}}
	for len(stack) > 0 {
		top := &stack[len(stack)-1]
		if top.i < len(top.t.Args) {
			a := top.t.Args[top.i]
			top.i++
			if a.Op == "var" {
				s.define(a)
			} else if a.Op != "const" && !s.defined[a.ID] {
				stack = append(stack, fr{a, 0})
			}
			continue
		}
		if !s.defined[top.t.ID] {
			s.defined[top.t.ID] = true
			s.send(fmt.Sprintf("(define-fun t%d () %s %s)", top.t.ID, top.t.Sort, body(top.t)))
		}
		stack = stack[:len(stack)-1]
	}
	return ref(t)
}

func (s *Solver) Assert(t *Term) {
	if t.IsTrue() {
		return
	}
	r := s.define(t)
	s.send("(assert " + r + ")")
}

type SatResult int

const (
	RSat SatResult = iota
	RUnsat
	RUnknown
)

func (r SatResult) String() string { return [...]string{"sat", "unsat", "unknown"}[r] }

var marker = "@@done@@"

func (s *Solver) readUntilMarker() []string {
	var lines []string
	for {
		line, err := s.out.ReadString('\n')
		line = strings.TrimSpace(line)
		if line == marker || line == "\""+marker+"\"" {
			return lines
		}
		if line != "" {
			lines = append(lines, line)
		}
		if err != nil {
			lines = append(lines, "(error \"solver died: "+err.Error()+"\")")
			return lines
		}
	}
}

// Check: is (current assertions ∧ extra...) satisfiable? extra are asserted inside push/pop.
// If wantModel != nil and the result is sat, values of those terms are returned.
// CheckFeas is Check with the (shorter) feasibility timeout.
func (s *Solver) CheckFeas(extra []*Term, wantModel []*Term) (SatResult, map[string]string) {
	if s.feasMs > 0 && s.feasMs < s.timeoutMs && !strings.Contains(s.bin, "cvc5") {
		s.send(fmt.Sprintf("(set-option :timeout %d)", s.feasMs))
		s.curMs = s.feasMs
		s.noFallback = true
		r, m := s.Check(extra, wantModel)
		s.noFallback = false
		s.send(fmt.Sprintf("(set-option :timeout %d)", s.timeoutMs))
		s.curMs = s.timeoutMs
		return r, m
	}
	return s.Check(extra, wantModel)
}

func (s *Solver) Check(extra []*Term, wantModel []*Term) (SatResult, map[string]string) {
	refs := make([]string, 0, len(extra))
	for _, e := range extra {
		refs = append(refs, s.define(e))
	}
	var mrefs []string
	if wantModel != nil {
		for _, m := range s.vars {
			mrefs = append(mrefs, smtName(m.Name))
		}
	}
	s.send("(push 1)")
	for _, r := range refs {
		s.send("(assert " + r + ")")
	}
	s.send("(check-sat)")
	s.send("(echo \"" + marker + "\")")
	t0 := time.Now()
	s.flush()
	lines := s.readUntilMarker()
	s.Time += time.Since(t0)
	s.Queries++
	res := RUnknown
	sawErr := false
	for _, l := range lines {
		switch {
		case l == "sat":
			res = RSat
		case l == "unsat":
			res = RUnsat
		case l == "unknown":
			res = RUnknown
		case strings.HasPrefix(l, "(error"):
			sawErr = true
			s.LastError = l
		}
	}
	if sawErr {
		s.Errors++
		res = RUnknown
		fmt.Fprintln(os.Stderr, "SOLVER ERROR:", s.LastError)
	}
	var model map[string]string
	if res == RUnknown && !s.noFallback && !strings.Contains(s.LastError, "solver died") {
		// incremental mode weakens z3's non-linear reasoning: retry the same query one-shot
		if r2, m2, ok := s.oneShot(mrefs); ok {
			res = r2
			model = m2
			s.Fallbacks++
			s.send("(pop 1)")
			switch res {
			case RSat:
				s.Sat++
			case RUnsat:
				s.Unsat++
			}
			return res, model
		}
	}
	if res == RSat && len(mrefs) > 0 {
		s.send("(get-value (" + strings.Join(mrefs, " ") + "))")
		s.send("(echo \"" + marker + "\")")
		s.flush()
		ml := s.readUntilMarker()
		model = parseGetValue(strings.Join(ml, " "), mrefs)
	}
	s.send("(pop 1)")
	switch res {
	case RSat:
		s.Sat++
	case RUnsat:
		s.Unsat++
	default:
		s.Unknown++
		if dumpDir != "" {
			n := atomic.AddInt32(&dumpSeq, 1)
			if n <= 20 {
				os.WriteFile(fmt.Sprintf("%s/unknown-%d.smt2", dumpDir, n), []byte(s.transcript.String()), 0o644)
			}
		}
		if strings.Contains(s.LastError, "solver died") {
			s.Close()
			s.start()
		}
	}
	return res, model
}

// ---- tiny s-expression reader for get-value output ----

type sx struct {
	atom string
	list []*sx
}

func parseSx(s string) []*sx {
	pos := 0
	var parse func() *sx
	skip := func() {
		for pos < len(s) && (s[pos] == ' ' || s[pos] == '\n' || s[pos] == '\t' || s[pos] == '\r') {
			pos++
		}
	}
	parse = func() *sx {
		skip()
		if pos >= len(s) {
			return nil
		}
		if s[pos] == '(' {
			pos++
			n := &sx{list: []*sx{}}
			for {
				skip()
				if pos >= len(s) {
					return n
				}
				if s[pos] == ')' {
					pos++
					return n
				}
				c := parse()
				if c == nil {
					return n
				}
				n.list = append(n.list, c)
			}
		}
		if s[pos] == '|' {
			e := strings.IndexByte(s[pos+1:], '|')
			a := s[pos : pos+e+2]
			pos += e + 2
			return &sx{atom: a}
		}
		st := pos
		for pos < len(s) && s[pos] != ' ' && s[pos] != ')' && s[pos] != '(' && s[pos] != '\n' {
			pos++
		}
		return &sx{atom: s[st:pos]}
	}
	var out []*sx
	for {
		n := parse()
		if n == nil {
			break
		}
		out = append(out, n)
	}
	return out
}

func sxValue(n *sx) string {
	// returns decimal integer string, or "true"/"false"
	if n.list == nil {
		a := n.atom
		if strings.HasPrefix(a, "#x") {
			v, _ := new(big.Int).SetString(a[2:], 16)
			return v.String()
		}
		if strings.HasPrefix(a, "#b") {
			v, _ := new(big.Int).SetString(a[2:], 2)
			return v.String()
		}
		return a
	}
	if len(n.list) == 2 && n.list[0].atom == "-" {
		return "-" + sxValue(n.list[1])
	}
	if len(n.list) == 3 && n.list[0].atom == "_" && strings.HasPrefix(n.list[1].atom, "bv") {
		return n.list[1].atom[2:]
	}
	return "?"
}

func parseGetValue(out string, refs []string) map[string]string {
	m := map[string]string{}
	tops := parseSx(out)
	for _, top := range tops {
		for _, pair := range top.list {
			if len(pair.list) == 2 {
				k := pair.list[0]
				key := k.atom
				if k.list != nil {
					continue
				}
				m[key] = sxValue(pair.list[1])
			}
		}
	}
	return m
}

// oneShot re-runs the current query (everything sent since the last reset, earlier check-sats
// removed) in fresh solver processes: z3-new first, then z3 4.8.12.
func (s *Solver) oneShot(mrefs []string) (SatResult, map[string]string, bool) {
	lines := strings.Split(s.transcript.String(), "\n")
	last, start := -1, 0
	for i, l := range lines {
		if l == "(check-sat)" {
			last = i
		}
		if l == "(reset)" {
			start = i + 1
		}
	}
	if last < 0 {
		return RUnknown, nil, false
	}
	var sb strings.Builder
	for i, l := range lines {
		if i < start {
			continue
		}
		if strings.HasPrefix(l, "(set-option :timeout") || strings.HasPrefix(l, "(echo") || l == "(reset)" || strings.HasPrefix(l, "(get-value") {
			continue
		}
		if l == "(check-sat)" && i != last {
			continue
		}
		if i > last {
			break
		}
		sb.WriteString(l)
		sb.WriteByte('\n')
	}
	if len(mrefs) > 0 {
		sb.WriteString("(get-value (" + strings.Join(mrefs, " ") + "))\n")
	}
	f, err := os.CreateTemp("", "symx-oneshot-*.smt2")
	if err != nil {
		return RUnknown, nil, false
	}
	defer os.Remove(f.Name())
	f.WriteString(sb.String())
	f.Close()
	ms := s.timeoutMs
	if s.curMs > 0 {
		ms = s.curMs
	}
	secs := ms/1000 + 1
	for _, bin := range []string{"z3-new", "z3"} {
		t0 := time.Now()
		out, _ := exec.Command(bin, fmt.Sprintf("-T:%d", secs), f.Name()).CombinedOutput()
		s.Time += time.Since(t0)
		txt := string(out)
		if os.Getenv("SYMX_DEBUG_ONESHOT") != "" {
			fmt.Fprintf(os.Stderr, "oneshot %s -> %q (%.1fs)\n", bin, strings.SplitN(txt, "\n", 2)[0], time.Since(t0).Seconds())
		}
		if strings.Contains(txt, "(error") {
			continue
		}
		first := strings.TrimSpace(strings.SplitN(txt, "\n", 2)[0])
		switch first {
		case "unsat":
			return RUnsat, nil, true
		case "sat":
			var model map[string]string
			if len(mrefs) > 0 {
				rest := ""
				if i := strings.Index(txt, "\n"); i >= 0 {
					rest = txt[i+1:]
				}
				model = parseGetValue(rest, mrefs)
			}
			return RSat, model, true
		}
	}
	return RUnknown, nil, false
}
