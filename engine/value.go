package main

import (
	"fmt"
	"go/types"
	"math/big"
	"strings"

	"golang.org/x/tools/go/ssa"
)

// Val is an engine value. Scalars (bool, intN) are *Term.
type Val interface{}

// StrV: Go string; concrete length, per-byte BV8 terms. Opaque strings (formatted messages)
// have unknown content; inspecting them is unmodelled.
type StrV struct {
	B      []*Term
	Opaque bool
	Tag    string
}

type StructV struct{ F []Val } // immutable
type ArrayV struct{ E []Val }  // immutable
type TupleV []Val

type Cell struct {
	V  Val
	ID int
}

// PtrV: pointer = cell + path of field/element indexes. nil pointer: C == nil.
type PtrV struct {
	C    *Cell
	Path []int
}

// SliceV: view on an ArrayV that lives at P.
type SliceV struct {
	P             PtrV
	Off, Len, Cap int
	Nil           bool
}

type MapObj struct {
	Keys []Val
	Vals []Val
	ID   int
}
type MapV struct{ M *MapObj } // nil map: M == nil

type IfaceV struct {
	T types.Type // nil => nil interface
	V Val
}

type FuncV struct {
	Fn     *ssa.Function
	Bind   []Val
	Native func(ex *Exec, args []Val) Val
	Name   string
}

// BigV: arbitrary-precision integer (sdkmath.Int by value; contents of a *big.Int cell; sdkmath.Uint).
type BigV struct {
	T   *Term // Int sort
	Nil bool
}

// DecV: LegacyDec; T is the raw integer (value * 10^18).
type DecV struct {
	T   *Term
	Nil bool
}

// TimeV: time.Time as signed 64-bit nanoseconds since the Unix epoch (valid within +-292 years;
// harnesses keep times inside that range). Z marks the zero time.Time (year 1), which lies
// outside that range and is treated as "before everything".
type TimeV struct {
	T *Term
	Z bool
}

// BlobV: result of codec marshal: a frozen typed value standing for its bytes.
type BlobV struct {
	V   Val
	Typ types.Type
}

// ErrV: error created by intrinsics (errorsmod.Register/Wrap, errors.New, fmt.Errorf).
type ErrV struct {
	Root string
	Msg  string
}

type OpaqueV struct{ Tag string }

// NativeObj: engine-implemented object (store, context pieces, codec ...) with methods.
type NativeObj interface {
	Invoke(ex *Exec, method string, args []Val) Val
}

// frozen forms (inside BlobV)
type FrozenSlice struct {
	E   []Val
	Nil bool
}
type FrozenPtr struct {
	V   Val
	Nil bool
}
type FrozenMap struct {
	K, V []Val
	Nil  bool
}

var symxErrorType = types.NewNamed(types.NewTypeName(0, nil, "symxError", nil), types.NewStruct(nil, nil), nil)

func typeKey(t types.Type) string {
	if n, ok := t.(*types.Named); ok {
		if n.Obj().Pkg() != nil {
			return n.Obj().Pkg().Path() + "." + n.Obj().Name()
		}
		return n.Obj().Name()
	}
	if a, ok := t.(*types.Alias); ok {
		return typeKey(types.Unalias(a))
	}
	return ""
}

const (
	tkInt     = "cosmossdk.io/math.Int"
	tkUint    = "cosmossdk.io/math.Uint"
	tkDec     = "cosmossdk.io/math.LegacyDec"
	tkBig     = "math/big.Int"
	tkTime    = "time.Time"
	tkContext = "github.com/cosmos/cosmos-sdk/types.Context"
)

// special opaque named types get engine-native zero values
func (ex *Exec) specialZero(t types.Type) (Val, bool) {
	switch typeKey(t) {
	case tkInt, tkUint:
		return BigV{Nil: true}, true
	case tkDec:
		return DecV{Nil: true}, true
	case tkBig:
		return BigV{T: ex.tf.Inti(0)}, true
	case tkTime:
		return TimeV{T: ex.tf.BVu(0, 64), Z: true}, true
	case tkContext:
		return &CtxV{}, true
	}
	return nil, false
}

// zero time.Time (0001-01-01 UTC) in nanoseconds relative to Unix epoch
var zeroTimeNanos = func() *big.Int {
	v := big.NewInt(-62135596800)
	return v.Mul(v, big.NewInt(1000000000))
}()

func (ex *Exec) zero(t types.Type) Val {
	if v, ok := ex.specialZero(t); ok {
		return v
	}
	switch u := t.Underlying().(type) {
	case *types.Basic:
		switch {
		case u.Info()&types.IsBoolean != 0:
			return ex.tf.F
		case u.Info()&types.IsInteger != 0:
			return ex.tf.BVu(0, intWidth(u))
		case u.Info()&types.IsString != 0:
			return StrV{}
		case u.Kind() == types.UnsafePointer:
			return PtrV{}
		case u.Info()&types.IsFloat != 0:
			return OpaqueV{"float"}
		case u.Kind() == types.UntypedNil:
			return PtrV{}
		}
		return OpaqueV{"basic:" + u.String()}
	case *types.Pointer:
		return PtrV{}
	case *types.Slice:
		return SliceV{Nil: true}
	case *types.Map:
		return MapV{}
	case *types.Interface:
		return IfaceV{}
	case *types.Signature:
		return FuncV{}
	case *types.Chan:
		return OpaqueV{"chan"}
	case *types.Struct:
		f := make([]Val, u.NumFields())
		for i := range f {
			f[i] = ex.zero(u.Field(i).Type())
		}
		return StructV{F: f}
	case *types.Array:
		n := int(u.Len())
		e := make([]Val, n)
		if n > 0 {
			z := ex.zero(u.Elem())
			for i := range e {
				e[i] = z
			}
		}
		return ArrayV{E: e}
	case *types.Tuple:
		tv := make(TupleV, u.Len())
		for i := range tv {
			tv[i] = ex.zero(u.At(i).Type())
		}
		return tv
	}
	return OpaqueV{"zero:" + t.String()}
}

func intWidth(b *types.Basic) int {
	switch b.Kind() {
	case types.Int8, types.Uint8:
		return 8
	case types.Int16, types.Uint16:
		return 16
	case types.Int32, types.Uint32:
		return 32
	}
	return 64
}

func isSigned(t types.Type) bool {
	b, ok := t.Underlying().(*types.Basic)
	return ok && b.Info()&types.IsInteger != 0 && b.Info()&types.IsUnsigned == 0
}

func isIntType(t types.Type) bool {
	b, ok := t.Underlying().(*types.Basic)
	return ok && b.Info()&types.IsInteger != 0
}

// ---------- pointer load / store ----------

func getPath(v Val, path []int) Val {
	for _, i := range path {
		switch x := v.(type) {
		case StructV:
			v = x.F[i]
		case ArrayV:
			v = x.E[i]
		default:
			panic(engineErr(fmt.Sprintf("getPath through %T", v)))
		}
	}
	return v
}

func setPath(v Val, path []int, nv Val) Val {
	if len(path) == 0 {
		return nv
	}
	i := path[0]
	switch x := v.(type) {
	case StructV:
		f := make([]Val, len(x.F))
		copy(f, x.F)
		f[i] = setPath(x.F[i], path[1:], nv)
		return StructV{F: f}
	case ArrayV:
		e := make([]Val, len(x.E))
		copy(e, x.E)
		e[i] = setPath(x.E[i], path[1:], nv)
		return ArrayV{E: e}
	}
	panic(engineErr(fmt.Sprintf("setPath through %T", v)))
}

func (ex *Exec) load(p PtrV) Val {
	if p.C == nil {
		ex.goPanic("nil pointer dereference")
	}
	return getPath(p.C.V, p.Path)
}

func (ex *Exec) store(p PtrV, v Val) {
	if p.C == nil {
		ex.goPanic("nil pointer dereference (store)")
	}
	p.C.V = setPath(p.C.V, p.Path, v)
}

func (ex *Exec) newCell(v Val) *Cell {
	ex.cellSeq++
	return &Cell{V: v, ID: ex.cellSeq}
}

func (p PtrV) sub(i int) PtrV {
	np := make([]int, len(p.Path)+1)
	copy(np, p.Path)
	np[len(p.Path)] = i
	return PtrV{C: p.C, Path: np}
}

func samePtr(a, b PtrV) bool {
	if a.C != b.C || len(a.Path) != len(b.Path) {
		return false
	}
	for i := range a.Path {
		if a.Path[i] != b.Path[i] {
			return false
		}
	}
	return true
}

// ---------- slices ----------

func (ex *Exec) newSlice(elems []Val, cap int) SliceV {
	if cap < len(elems) {
		cap = len(elems)
	}
	arr := make([]Val, cap)
	copy(arr, elems)
	c := ex.newCell(ArrayV{E: arr})
	return SliceV{P: PtrV{C: c}, Off: 0, Len: len(elems), Cap: cap}
}

func (ex *Exec) sliceElems(s SliceV) []Val {
	if s.Len == 0 {
		return nil
	}
	arr := ex.load(s.P).(ArrayV)
	return arr.E[s.Off : s.Off+s.Len]
}

func (ex *Exec) sliceGet(s SliceV, i int) Val {
	arr := ex.load(s.P).(ArrayV)
	return arr.E[s.Off+i]
}

func (ex *Exec) bytesOf(v Val) []*Term {
	switch x := v.(type) {
	case StrV:
		if x.Opaque {
			ex.unmodelled("inspect opaque string " + x.Tag)
		}
		return x.B
	case SliceV:
		el := ex.sliceElems(x)
		out := make([]*Term, len(el))
		for i, e := range el {
			out[i] = e.(*Term)
		}
		return out
	case ArrayV:
		out := make([]*Term, len(x.E))
		for i, e := range x.E {
			out[i] = e.(*Term)
		}
		return out
	case BlobV:
		ex.unmodelled("inspect bytes of marshalled blob")
	}
	panic(engineErr(fmt.Sprintf("bytesOf %T", v)))
}

func (ex *Exec) mkBytes(b []*Term) SliceV {
	e := make([]Val, len(b))
	for i, t := range b {
		e[i] = t
	}
	s := ex.newSlice(e, len(e))
	return s
}

func (ex *Exec) constBytes(s string) []*Term {
	out := make([]*Term, len(s))
	for i := 0; i < len(s); i++ {
		out[i] = ex.tf.BVu(uint64(s[i]), 8)
	}
	return out
}

func (ex *Exec) mkStr(s string) StrV { return StrV{B: ex.constBytes(s)} }

// concrete content of a byte sequence, if fully constant
func concreteBytes(b []*Term) (string, bool) {
	var sb strings.Builder
	for _, t := range b {
		if !t.IsConst() {
			return "", false
		}
		sb.WriteByte(byte(t.C.Uint64()))
	}
	return sb.String(), true
}

func (ex *Exec) concreteStr(v Val) (string, bool) {
	switch x := v.(type) {
	case StrV:
		if x.Opaque {
			return "", false
		}
		return concreteBytes(x.B)
	case SliceV:
		return concreteBytes(ex.bytesOf(x))
	}
	return "", false
}

func (ex *Exec) mustConcreteStr(v Val, what string) string {
	s, ok := ex.concreteStr(v)
	if !ok {
		ex.unmodelled("symbolic string in " + what)
	}
	return s
}

// ---------- byte-sequence predicates as terms ----------

func (ex *Exec) bytesEq(a, b []*Term) *Term {
	if len(a) != len(b) {
		return ex.tf.F
	}
	cs := make([]*Term, 0, len(a))
	for i := range a {
		c := ex.tf.Eq(a[i], b[i])
		if c.IsFalse() {
			return c
		}
		cs = append(cs, c)
	}
	return ex.tf.And(cs...)
}

// lexicographic a < b
func (ex *Exec) bytesLt(a, b []*Term) *Term {
	n := len(a)
	if len(b) < n {
		n = len(b)
	}
	// build from the end
	res := ex.tf.Bool(len(a) < len(b))
	for i := n - 1; i >= 0; i-- {
		res = ex.tf.Ite(ex.tf.Eq(a[i], b[i]), res, ex.tf.BVUlt(a[i], b[i]))
	}
	return res
}

func (ex *Exec) hasPrefix(a, p []*Term) *Term {
	if len(p) > len(a) {
		return ex.tf.F
	}
	return ex.bytesEq(a[:len(p)], p)
}

// ---------- generic equality ----------

func (ex *Exec) valEq(a, b Val) *Term {
	switch x := a.(type) {
	case *Term:
		y, ok := b.(*Term)
		if !ok {
			return ex.tf.F
		}
		if x.Sort != y.Sort {
			return ex.tf.F
		}
		return ex.tf.Eq(x, y)
	case StrV:
		y, ok := b.(StrV)
		if !ok {
			return ex.tf.F
		}
		if x.Opaque || y.Opaque {
			if x.Opaque && y.Opaque && x.Tag == y.Tag && x.Tag != "" {
				return ex.tf.T
			}
			ex.unmodelled("compare opaque string")
		}
		return ex.bytesEq(x.B, y.B)
	case StructV:
		y, ok := b.(StructV)
		if !ok || len(x.F) != len(y.F) {
			return ex.tf.F
		}
		cs := []*Term{}
		for i := range x.F {
			cs = append(cs, ex.valEq(x.F[i], y.F[i]))
		}
		return ex.tf.And(cs...)
	case ArrayV:
		y, ok := b.(ArrayV)
		if !ok || len(x.E) != len(y.E) {
			return ex.tf.F
		}
		cs := []*Term{}
		for i := range x.E {
			cs = append(cs, ex.valEq(x.E[i], y.E[i]))
		}
		return ex.tf.And(cs...)
	case PtrV:
		switch y := b.(type) {
		case PtrV:
			return ex.tf.Bool(samePtr(x, y))
		}
		return ex.tf.F
	case IfaceV:
		y, ok := b.(IfaceV)
		if !ok {
			return ex.tf.F
		}
		if x.T == nil || y.T == nil {
			return ex.tf.Bool(x.T == nil && y.T == nil)
		}
		if !types.Identical(x.T, y.T) {
			return ex.tf.F
		}
		return ex.valEq(x.V, y.V)
	case SliceV:
		y, ok := b.(SliceV)
		if ok && (x.Nil || y.Nil) {
			return ex.tf.Bool(x.Nil && y.Nil)
		}
		ex.unmodelled("slice equality")
	case BlobV:
		if y, ok := b.(SliceV); ok && y.Nil {
			return ex.tf.F
		}
		if y, ok := b.(BlobV); ok {
			return ex.valEq(x.V, y.V)
		}
		return ex.tf.F
	case MapV:
		y, ok := b.(MapV)
		if ok && (x.M == nil || y.M == nil) {
			return ex.tf.Bool(x.M == nil && y.M == nil)
		}
		return ex.tf.Bool(ok && x.M == y.M)
	case FuncV:
		y, ok := b.(FuncV)
		if ok {
			xn := x.Fn == nil && x.Native == nil
			yn := y.Fn == nil && y.Native == nil
			if xn || yn {
				return ex.tf.Bool(xn && yn)
			}
		}
		ex.unmodelled("func equality")
	case BigV:
		y, ok := b.(BigV)
		if !ok {
			return ex.tf.F
		}
		if x.Nil || y.Nil {
			return ex.tf.Bool(x.Nil && y.Nil)
		}
		return ex.tf.Eq(x.T, y.T)
	case DecV:
		y, ok := b.(DecV)
		if !ok {
			return ex.tf.F
		}
		if x.Nil || y.Nil {
			return ex.tf.Bool(x.Nil && y.Nil)
		}
		return ex.tf.Eq(x.T, y.T)
	case TimeV:
		y, ok := b.(TimeV)
		if !ok {
			return ex.tf.F
		}
		if x.Z || y.Z {
			return ex.tf.Bool(x.Z && y.Z)
		}
		return ex.tf.Eq(x.T, y.T)
	case *ErrV:
		y, ok := b.(*ErrV)
		return ex.tf.Bool(ok && x == y)
	case FrozenSlice:
		y, ok := b.(FrozenSlice)
		if !ok || len(x.E) != len(y.E) {
			return ex.tf.F
		}
		cs := []*Term{}
		for i := range x.E {
			cs = append(cs, ex.valEq(x.E[i], y.E[i]))
		}
		return ex.tf.And(cs...)
	case FrozenPtr:
		y, ok := b.(FrozenPtr)
		if !ok || x.Nil != y.Nil {
			return ex.tf.F
		}
		if x.Nil {
			return ex.tf.T
		}
		return ex.valEq(x.V, y.V)
	case FrozenMap:
		y, ok := b.(FrozenMap)
		if !ok || len(x.K) != len(y.K) {
			return ex.tf.F
		}
		// order-insensitive for concrete keys: require same order after canonical sort by caller
		cs := []*Term{}
		for i := range x.K {
			cs = append(cs, ex.valEq(x.K[i], y.K[i]), ex.valEq(x.V[i], y.V[i]))
		}
		return ex.tf.And(cs...)
	case OpaqueV:
		y, ok := b.(OpaqueV)
		return ex.tf.Bool(ok && x.Tag == y.Tag)
	case nil:
		return ex.tf.Bool(b == nil)
	}
	// native objects (pointers): identity
	if _, ok := a.(NativeObj); ok {
		if _, ok2 := b.(NativeObj); ok2 {
			return ex.tf.Bool(a == b)
		}
		return ex.tf.F
	}
	ex.unmodelled(fmt.Sprintf("equality on %T", a))
	return nil
}

// ---------- freeze / thaw (codec model) ----------

// freeze turns a value into a heap-independent tree, applying the protobuf round-trip
// normalisation (empty slices -> nil, nil Int/Dec -> 0).
func (ex *Exec) freeze(v Val) Val {
	switch x := v.(type) {
	case StructV:
		f := make([]Val, len(x.F))
		for i := range f {
			f[i] = ex.freeze(x.F[i])
		}
		return StructV{F: f}
	case ArrayV:
		e := make([]Val, len(x.E))
		for i := range e {
			e[i] = ex.freeze(x.E[i])
		}
		return ArrayV{E: e}
	case SliceV:
		if x.Nil || x.Len == 0 {
			return FrozenSlice{Nil: true}
		}
		el := ex.sliceElems(x)
		e := make([]Val, len(el))
		for i := range e {
			e[i] = ex.freeze(el[i])
		}
		return FrozenSlice{E: e}
	case PtrV:
		if x.C == nil {
			return FrozenPtr{Nil: true}
		}
		return FrozenPtr{V: ex.freeze(ex.load(x))}
	case MapV:
		if x.M == nil || len(x.M.Keys) == 0 {
			return FrozenMap{Nil: true}
		}
		fm := FrozenMap{}
		for i := range x.M.Keys {
			fm.K = append(fm.K, ex.freeze(x.M.Keys[i]))
			fm.V = append(fm.V, ex.freeze(x.M.Vals[i]))
		}
		return fm
	case BigV:
		if x.Nil {
			return BigV{T: ex.tf.Inti(0)}
		}
		return x
	case DecV:
		if x.Nil {
			return DecV{T: ex.tf.Inti(0)}
		}
		return x
	case IfaceV:
		if x.T == nil {
			return x
		}
		return IfaceV{T: x.T, V: ex.freeze(x.V)}
	}
	return v
}

func (ex *Exec) thaw(v Val) Val {
	switch x := v.(type) {
	case StructV:
		f := make([]Val, len(x.F))
		for i := range f {
			f[i] = ex.thaw(x.F[i])
		}
		return StructV{F: f}
	case ArrayV:
		e := make([]Val, len(x.E))
		for i := range e {
			e[i] = ex.thaw(x.E[i])
		}
		return ArrayV{E: e}
	case FrozenSlice:
		if x.Nil {
			return SliceV{Nil: true}
		}
		e := make([]Val, len(x.E))
		for i := range e {
			e[i] = ex.thaw(x.E[i])
		}
		return ex.newSlice(e, len(e))
	case FrozenPtr:
		if x.Nil {
			return PtrV{}
		}
		return PtrV{C: ex.newCell(ex.thaw(x.V))}
	case FrozenMap:
		if x.Nil {
			return MapV{}
		}
		m := &MapObj{}
		for i := range x.K {
			m.Keys = append(m.Keys, ex.thaw(x.K[i]))
			m.Vals = append(m.Vals, ex.thaw(x.V[i]))
		}
		return MapV{M: m}
	case IfaceV:
		if x.T == nil {
			return x
		}
		return IfaceV{T: x.T, V: ex.thaw(x.V)}
	}
	return v
}

func describeVal(v Val) string {
	switch x := v.(type) {
	case *Term:
		return x.Pretty(80)
	case StrV:
		if s, ok := concreteBytes(x.B); ok && !x.Opaque {
			return fmt.Sprintf("%q", s)
		}
		return "str(sym)"
	}
	return fmt.Sprintf("%T", v)
}
