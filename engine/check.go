package main

// `symx check <property>`: run the property's harnesses, replay counterexamples natively against
// the real code, apply the known-findings file, write the evidence file, print verdict lines.

import (
	"bytes"
	"encoding/json"
	"flag"
	"fmt"
	"os"
	"os/exec"
	"path/filepath"
	"runtime"
	"sort"
	"strconv"
	"strings"
	"time"
)

type KnownFinding struct {
	ID          string `json:"id"`
	Property    string `json:"property"`
	Status      string `json:"status"` // "open" | "fixed"
	Harness     string `json:"harness"`
	Label       string `json:"label"`
	Pos         string `json:"pos,omitempty"`
	Description string `json:"description"`
	Commit      string `json:"commit,omitempty"`
}

type KnownFile struct {
	Findings []KnownFinding `json:"findings"`
}

func loadKnownFile() *KnownFile {
	var kf KnownFile
	b, err := os.ReadFile(filepath.Join(verifDir(), "known_findings.json"))
	if err != nil {
		return &kf
	}
	json.Unmarshal(b, &kf)
	return &kf
}

// loadKnown: ids of OPEN findings (for verifrt.Known) relevant to any property.
func loadKnown(prop string) map[string]bool {
	m := map[string]bool{}
	for _, f := range loadKnownFile().Findings {
		if f.Status == "open" {
			m[f.ID] = true
		}
	}
	return m
}

func (kf *KnownFile) match(prop string, v Violation) *KnownFinding {
	for i := range kf.Findings {
		f := &kf.Findings[i]
		if f.Status != "open" || f.Property != prop {
			continue
		}
		if f.Harness == v.Harness && f.Label == v.Label && (f.Pos == "" || f.Pos == v.Pos) {
			return f
		}
	}
	return nil
}

type replayOutcome struct {
	Ran        bool   `json:"ran"`
	Reproduced bool   `json:"reproduced"`
	Detail     string `json:"detail"`
	File       string `json:"file"`
}

// outDir: where evidence/ and replay/ go (the verif directory unless --out-dir is given)
var outDir string

func cmdCheck(args []string) int {
	fs := flag.NewFlagSet("check", flag.ExitOnError)
	tier := fs.String("tier", "", "quick|thorough")
	workers := fs.Int("workers", runtime.NumCPU(), "workers")
	solver := fs.String("solver", "z3-new", "solver")
	solverMs := fs.Int("solver-ms", 30000, "per query timeout ms")
	only := fs.String("only", "", "subset of harnesses (no evidence written)")
	outDirFlag := fs.String("out-dir", "", "write evidence/ and replay/ under this directory instead of the verif directory (experiments on scratch trees)")
	noReplay := fs.Bool("no-replay", false, "skip native replay")
	debug := fs.Bool("debug", false, "debug")
	if len(args) < 1 {
		fmt.Println("usage: symx check <Cxx> [--tier quick]")
		return 2
	}
	prop := args[0]
	fs.Parse(args[1:])
	outDir = verifDir()
	if *outDirFlag != "" {
		outDir = *outDirFlag
	}
	if *tier == "" {
		*tier = os.Getenv("VERIF_TIER")
	}
	if *tier == "" {
		*tier = "quick"
	}
	seed := 0
	if s := os.Getenv("VERIF_SEED"); s != "" {
		seed, _ = strconv.Atoi(s)
	}
	t0 := time.Now()
	specPath := filepath.Join(verifDir(), "harness", prop, "spec.json")
	rr, spec, err := runSpec(runOpts{spec: specPath, tier: *tier, workers: *workers, solver: *solver, solverMs: *solverMs, only: *only, debug: *debug})
	if err != nil {
		// Could not even build/load: report as inconclusive infrastructure failure.
		fmt.Printf("ERROR property=%s: %v\n", prop, err)
		if spec != nil {
			writeEvidence(prop, *tier, seed, nil, spec, nil, 0, time.Since(t0).Seconds(), []string{"load failure: " + err.Error()}, nil)
		}
		return 3
	}
	kf := loadKnownFile()
	replayDir := filepath.Join(outDir, "replay", prop)
	os.MkdirAll(replayDir, 0o755)
	nviol := 0
	nreplayed := 0
	rb := newReplayBuilder(spec)
	defer rb.close()
	var replays []map[string]interface{}
	var extraInconcl []string
	var knownLines []string
	for _, h := range rr.Harnesses {
		sort.Slice(h.Violations, func(i, j int) bool { return h.Violations[i].Label < h.Violations[j].Label })
		for i := range h.Violations {
			v := &h.Violations[i]
			hs := findHarnessSpec(spec, h.Name)
			rfile := filepath.Join(replayDir, fmt.Sprintf("%s-%d.json", h.Name, i))
			writeJSON(rfile, map[string]interface{}{
				"property": prop, "harness": h.Name, "func": hs.Func, "pkg": hs.Pkg, "label": v.Label, "kind": v.Kind, "pos": v.Pos,
				"model": v.Model, "params": h.Params, "known": sortedKeys(loadKnown(prop)), "trace": v.Trace,
			})
			out := replayOutcome{File: rfile}
			if !*noReplay {
				out = rb.replayViolation(hs, rfile, v)
				nreplayed++
			}
			replays = append(replays, map[string]interface{}{"harness": h.Name, "label": v.Label, "replay": out})
			kfm := kf.match(prop, *v)
			switch {
			case !*noReplay && !out.Reproduced:
				msg := fmt.Sprintf("counterexample for %s [%s] did not reproduce natively (%s): encoding/stub mismatch, not reported as violation", h.Name, v.Label, out.Detail)
				extraInconcl = append(extraInconcl, msg)
				fmt.Println("INCONCLUSIVE", msg)
			case kfm != nil:
				v.Known = kfm.ID
				knownLines = append(knownLines, fmt.Sprintf("KNOWN-FINDING: property=%s %s: %s (harness %s, %q)", prop, kfm.ID, kfm.Description, h.Name, v.Label))
			default:
				nviol++
				fmt.Printf("VIOLATION property=%s replay=%s harness=%s label=%q at %s\n", prop, rfile, h.Name, v.Label, v.Pos)
			}
		}
		for _, s := range h.Inconcl {
			fmt.Printf("INCONCLUSIVE property=%s harness=%s: %s\n", prop, h.Name, s)
		}
		// translator validation: the witness model of one completed path must run clean natively
		if !*noReplay && os.Getenv("SYMX_NO_WITNESS_REPLAY") == "" {
			hs := findHarnessSpec(spec, h.Name)
			agree := 0
			for wi, w := range h.Witnesses {
				wfile := filepath.Join(replayDir, fmt.Sprintf("%s-witness-%d.json", h.Name, wi))
				writeJSON(wfile, map[string]interface{}{"property": prop, "harness": h.Name, "func": hs.Func, "pkg": hs.Pkg, "kind": "witness",
					"model": w.Model, "params": h.Params, "known": sortedKeys(loadKnown(prop))})
				ok, detail := rb.validateWitness(hs, wfile, w.Covers)
				nreplayed++
				if ok {
					agree++
					if wi > 0 {
						os.Remove(wfile)
					}
					continue
				}
				replays = append(replays, map[string]interface{}{"harness": h.Name, "label": "witness path replayed natively", "replay": map[string]interface{}{"ran": true, "agrees": false, "detail": detail, "file": wfile}})
				msg := fmt.Sprintf("harness %s: native run of a witness model disagrees with the symbolic path (%s)", h.Name, detail)
				extraInconcl = append(extraInconcl, msg)
				fmt.Println("INCONCLUSIVE", msg)
			}
			if len(h.Witnesses) > 0 {
				replays = append(replays, map[string]interface{}{"harness": h.Name, "label": "witness models of completed symbolic paths replayed natively: assumptions, assertions and reachability labels agree",
					"replay": map[string]interface{}{"ran": true, "paths_replayed": len(h.Witnesses), "agree": agree}})
			}
		}
		if hs := findHarnessSpec(spec, h.Name); len(h.Inconcl) == 0 {
			have := map[string]bool{}
			for _, c := range h.Covers {
				have[c] = true
			}
			for _, c := range hs.ExpectCovers {
				if !have[c] {
					msg := fmt.Sprintf("harness %s: reachability witness %q was not reached by any path (vacuous for that case)", h.Name, c)
					extraInconcl = append(extraInconcl, msg)
					fmt.Println("INCONCLUSIVE", msg)
				}
			}
		}
		// vacuity guard: each harness must complete at least one path
		if h.Completed == 0 && len(h.Inconcl) == 0 {
			msg := fmt.Sprintf("harness %s: no path reached its end (vacuous)", h.Name)
			extraInconcl = append(extraInconcl, msg)
			fmt.Println("INCONCLUSIVE", msg)
		}
	}
	for _, l := range knownLines {
		fmt.Println(l)
	}
	printSummary(rr)
	if *only == "" {
		writeEvidence(prop, *tier, seed, rr, spec, replays, nviol, time.Since(t0).Seconds(), extraInconcl, knownLines)
	}
	if nviol > 0 {
		return 1
	}
	fmt.Printf("OK property=%s tier=%s harnesses=%d\n", prop, *tier, len(rr.Harnesses))
	return 0
}

func findHarnessSpec(spec *Spec, name string) HarnessSpec {
	for _, h := range spec.Harnesses {
		if h.Name == name {
			return h
		}
	}
	return HarnessSpec{}
}

// replayBuilder compiles, once per harness package, a native test binary containing one test
// per harness function of that package (tag verif, files injected by overlay).
type replayBuilder struct {
	spec   *Spec
	tmp    string
	bins   map[string]string
	errors map[string]string
}

func newReplayBuilder(spec *Spec) *replayBuilder {
	tmp, _ := os.MkdirTemp("", "symx-replay-")
	return &replayBuilder{spec: spec, tmp: tmp, bins: map[string]string{}, errors: map[string]string{}}
}

func (rb *replayBuilder) close() { os.RemoveAll(rb.tmp) }

func replayEnv(rfile string) []string {
	return append(os.Environ(), "GOFLAGS=-mod=mod", "GOPROXY=off", "GOSUMDB=off", "GOTOOLCHAIN=local", "VERIF_REPLAY="+rfile)
}

func (rb *replayBuilder) binFor(pkg string) (string, string) {
	if b, ok := rb.bins[pkg]; ok {
		return b, rb.errors[pkg]
	}
	spec := rb.spec
	specDir := filepath.Join(verifDir(), "harness", spec.Property)
	repl := map[string]string{}
	for _, shared := range []string{"verifrt", "verifenv"} {
		rtFiles, _ := filepath.Glob(filepath.Join(verifDir(), shared, "*.go"))
		for _, f := range rtFiles {
			repl[repoRoot+"/"+shared+"/"+filepath.Base(f)] = f
		}
	}
	for _, f := range spec.Files {
		repl[filepath.Join(repoRoot, f.Pkg, "zz_verif_"+filepath.Base(f.Src))] = filepath.Join(specDir, f.Src)
	}
	pkgName, err := goPackageName(filepath.Join(repoRoot, pkg))
	if err != nil {
		for _, f := range spec.Files {
			if f.Pkg == pkg {
				if n, e2 := packageClause(filepath.Join(specDir, f.Src)); e2 == nil {
					pkgName, err = n, nil
				}
			}
		}
	}
	if err != nil {
		rb.bins[pkg], rb.errors[pkg] = "", err.Error()
		return "", err.Error()
	}
	var sb strings.Builder
	fmt.Fprintf(&sb, "//go:build verif\n\npackage %s\n\nimport (\n\t\"fmt\"\n\t\"os\"\n\t\"testing\"\n\n\t\"github.com/ExocoreNetwork/exocore/verifrt\"\n)\n\n", pkgName)
	sb.WriteString(`func verifReplayRun(t *testing.T, f func()) {
	if err := verifrt.LoadReplay(os.Getenv("VERIF_REPLAY")); err != nil {
		t.Fatal(err)
	}
	defer func() {
		if r := recover(); r != nil {
			if _, ok := r.(verifrt.AssumptionViolated); ok {
				fmt.Printf("VERIF-REPLAY assumption-violated %v\n", r)
				return
			}
			fmt.Printf("VERIF-REPLAY panic=%v\n", r)
			return
		}
		for _, f := range verifrt.Failures() {
			fmt.Printf("VERIF-REPLAY failed=%s\n", f)
		}
		for _, c := range verifrt.Covers() {
			fmt.Printf("VERIF-REPLAY cover=%s\n", c)
		}
		fmt.Println("VERIF-REPLAY done")
	}()
	f()
}
`)
	seen := map[string]bool{}
	for _, h := range spec.Harnesses {
		if h.Pkg == pkg && !seen[h.Func] {
			seen[h.Func] = true
			fmt.Fprintf(&sb, "\nfunc TestVerifReplay_%s(t *testing.T) { verifReplayRun(t, %s) }\n", h.Func, h.Func)
		}
	}
	dir := filepath.Join(rb.tmp, strings.ReplaceAll(pkg, "/", "_"))
	os.MkdirAll(dir, 0o755)
	tf := filepath.Join(dir, "replay_test.go")
	os.WriteFile(tf, []byte(sb.String()), 0o644)
	repl[filepath.Join(repoRoot, pkg, "zz_verif_replay_test.go")] = tf
	ovf := filepath.Join(dir, "overlay.json")
	writeJSON(ovf, map[string]interface{}{"Replace": repl})
	bin := filepath.Join(dir, "replay.test")
	var buf bytes.Buffer
	build := exec.Command("go", "test", "-c", "-tags", "verif", "-overlay", ovf, "-vet=off", "-o", bin, "./"+pkg)
	build.Dir = repoRoot
	build.Env = replayEnv("")
	build.Stdout = &buf
	build.Stderr = &buf
	if err := build.Run(); err != nil {
		tail := buf.String()
		if len(tail) > 800 {
			tail = tail[len(tail)-800:]
		}
		rb.bins[pkg], rb.errors[pkg] = "", "replay build failed: "+strings.ReplaceAll(tail, "\n", " | ")
		return "", rb.errors[pkg]
	}
	rb.bins[pkg] = bin
	return bin, ""
}

// run executes the harness natively with the inputs of rfile and returns the VERIF-REPLAY lines.
func (rb *replayBuilder) run(hs HarnessSpec, rfile string) ([]string, string) {
	bin, berr := rb.binFor(hs.Pkg)
	if berr != "" {
		return nil, berr
	}
	var buf bytes.Buffer
	cmd := exec.Command(bin, "-test.run", "^TestVerifReplay_"+hs.Func+"$", "-test.v", "-test.timeout", "20m")
	cmd.Dir = repoRoot
	if st, e2 := os.Stat(filepath.Join(repoRoot, hs.Pkg)); e2 == nil && st.IsDir() {
		cmd.Dir = filepath.Join(repoRoot, hs.Pkg)
	}
	cmd.Env = replayEnv(rfile)
	cmd.Stdout = &buf
	cmd.Stderr = &buf
	cmd.Run()
	txt := buf.String()
	var lines []string
	for _, l := range strings.Split(txt, "\n") {
		if strings.HasPrefix(l, "VERIF-REPLAY") || strings.HasPrefix(l, "VERIF-DEBUG") {
			lines = append(lines, l)
		}
	}
	if len(lines) == 0 {
		tail := txt
		if len(tail) > 600 {
			tail = tail[len(tail)-600:]
		}
		return nil, "no replay output: " + strings.ReplaceAll(tail, "\n", " | ")
	}
	return lines, ""
}

// replayNative re-runs the harness as ordinary Go against the real build with the model values
// and reports whether the predicted failure shows.
func (rb *replayBuilder) replayViolation(hs HarnessSpec, rfile string, v *Violation) replayOutcome {
	out := replayOutcome{File: rfile}
	lines, errs := rb.run(hs, rfile)
	if errs != "" {
		out.Detail = errs
		return out
	}
	out.Ran = true
	out.Detail = strings.Join(lines, "; ")
	switch v.Kind {
	case "assert":
		for _, l := range lines {
			if l == "VERIF-REPLAY failed="+v.Label {
				out.Reproduced = true
			}
		}
	case "panic":
		for _, l := range lines {
			if strings.HasPrefix(l, "VERIF-REPLAY panic=") {
				out.Reproduced = true
			}
		}
	}
	return out
}

// validateWitness runs the harness natively on a witness model of a completed symbolic path: the
// native run must satisfy every assumption and every assertion (agreement of the encoding with
// the real build on that path).
func (rb *replayBuilder) validateWitness(hs HarnessSpec, rfile string, covers []string) (bool, string) {
	lines, errs := rb.run(hs, rfile)
	if errs != "" {
		return false, errs
	}
	ok := false
	defer func() {}()
	nat := map[string]bool{}
	for _, l := range lines {
		if strings.HasPrefix(l, "VERIF-REPLAY cover=") {
			nat[strings.TrimPrefix(l, "VERIF-REPLAY cover=")] = true
		}
	}
	sym := map[string]bool{}
	for _, c := range covers {
		sym[c] = true
	}
	for c := range nat {
		if !sym[c] {
			return false, "native run reached cover " + c + " that the symbolic path did not; " + strings.Join(lines, "; ")
		}
	}
	for c := range sym {
		if !nat[c] {
			return false, "symbolic path reached cover " + c + " that the native run did not; " + strings.Join(lines, "; ")
		}
	}
	for _, l := range lines {
		if l == "VERIF-REPLAY done" {
			ok = true
		}
	}
	for _, l := range lines {
		if strings.HasPrefix(l, "VERIF-REPLAY failed=") || strings.HasPrefix(l, "VERIF-REPLAY panic=") || strings.HasPrefix(l, "VERIF-REPLAY assumption-violated") {
			ok = false
		}
	}
	return ok, strings.Join(lines, "; ")
}

func replayNative(spec *Spec, hs HarnessSpec, rfile string, v *Violation) replayOutcome {
	rb := newReplayBuilder(spec)
	defer rb.close()
	return rb.replayViolation(hs, rfile, v)
}

func packageClause(file string) (string, error) {
	b, err := os.ReadFile(file)
	if err != nil {
		return "", err
	}
	for _, l := range strings.Split(string(b), "\n") {
		l = strings.TrimSpace(l)
		if strings.HasPrefix(l, "package ") {
			return strings.Fields(l)[1], nil
		}
	}
	return "", fmt.Errorf("no package clause in %s", file)
}

func goPackageName(dir string) (string, error) {
	files, _ := filepath.Glob(filepath.Join(dir, "*.go"))
	for _, f := range files {
		if strings.HasSuffix(f, "_test.go") {
			continue
		}
		b, err := os.ReadFile(f)
		if err != nil {
			continue
		}
		for _, l := range strings.Split(string(b), "\n") {
			l = strings.TrimSpace(l)
			if strings.HasPrefix(l, "package ") {
				return strings.Fields(l)[1], nil
			}
		}
	}
	return "", fmt.Errorf("no package clause in %s", dir)
}

func writeEvidence(prop, tier string, seed int, rr *RunResult, spec *Spec, replays []map[string]interface{}, nviol int, wall float64, extraInconcl, knownLines []string) {
	cov := map[string]interface{}{}
	states, trans, obl, dis := 0, 0, 0, 0
	var samples []interface{}
	var funcs, intr, inconcl []string
	fset, iset := map[string]bool{}, map[string]bool{}
	var perH []interface{}
	nrep := 0
	if rr != nil {
		for _, h := range rr.Harnesses {
			states += h.Paths
			trans += h.Instrs
			obl += h.Obligations
			dis += h.Discharged
			for _, f := range h.Funcs {
				fset[f] = true
			}
			for _, f := range h.Intrinsics {
				iset[f] = true
			}
			for _, s := range h.Inconcl {
				inconcl = append(inconcl, h.Name+": "+s)
			}
			if len(h.Witnesses) > 0 {
				samples = append(samples, map[string]interface{}{"harness": h.Name, "kind": "witness model of one completed path (vacuity guard)", "inputs": h.Witnesses[0].Model, "path_condition": h.PCSample})
			}
			for _, v := range h.Violations {
				samples = append(samples, map[string]interface{}{"harness": h.Name, "kind": "counterexample", "label": v.Label, "inputs": v.Model, "known_finding": v.Known})
			}
			perH = append(perH, map[string]interface{}{
				"name": h.Name, "doc": h.Doc, "bounds": h.Bounds, "params": h.Params, "paths": h.Paths, "completed_paths": h.Completed,
				"path_ends": h.Ends, "assert_queries": h.Obligations, "assert_unsat": h.Discharged, "assert_reached": h.Reached,
				"violations": len(h.Violations), "inconclusive": h.Inconcl, "feasibility_unknown_both_sides_explored": h.FeasUnknown, "covers": h.Covers, "wall_s": h.WallS, "panic_ends": h.PanicEnds,
			})
		}
		for _, r := range replays {
			n := 1
			if m, ok := r["replay"].(map[string]interface{}); ok {
				if k, ok := m["paths_replayed"].(int); ok {
					n = k
				}
			}
			nrep += n
		}
	}
	funcs = sortedKeys(fset)
	intr = sortedKeys(iset)
	inconcl = append(inconcl, extraInconcl...)
	if len(samples) == 0 {
		samples = append(samples, map[string]interface{}{"note": "no path completed"})
	}
	if states == 0 {
		states = 1
	}
	if trans == 0 {
		trans = 1
	}
	cov["states"] = states
	cov["transitions"] = trans
	cov["traces_validated_against_impl"] = nrep
	cov["samples"] = samples
	cov["obligations"] = obl
	cov["discharged"] = dis
	cov["exhaustive"] = len(inconcl) == 0
	cov["rule"] = "states = feasible symbolic paths of the harness functions (each path covers every input satisfying its path condition); transitions = SSA instructions interpreted; obligations = assertion queries PC ∧ ¬assert sent to the solver; discharged = those answered unsat"
	cov["harnesses"] = perH
	cov["functions_encoded"] = funcs
	cov["intrinsics_and_stubs_used"] = intr
	cov["inconclusive"] = inconcl
	cov["known_findings_reconfirmed"] = knownLines
	cov["replays"] = replays
	if rr != nil {
		cov["solver"] = map[string]interface{}{"binary": rr.Solver, "queries": rr.SolverQ, "sat": rr.SolverSat, "unsat": rr.SolverUnsat, "unknown": rr.SolverUnk, "seconds": rr.SolverS}
		cov["load_seconds"] = rr.LoadS
	}
	cov["outside_claim"] = spec.Outside
	tb := append([]string{"golang.org/x/tools/go/ssa lowering of /repo's current source", "symx interpreter and its intrinsic definitions (listed in intrinsics_and_stubs_used)", "z3 5.1.0 (z3-new)"}, spec.Trusted...)
	cov["trusted_base"] = tb
	assumptions := spec.Assumptions
	if assumptions == nil {
		assumptions = []string{}
	}
	assumptions = append(assumptions, "every claim is bounded as stated per harness; code outside the listed functions_encoded is not covered",
		"dependency code (cosmossdk.io/math, store, codec, ...) behaves as the listed intrinsics/stubs say")
	ev := map[string]interface{}{
		"property_id": prop, "tier": tier, "seed": seed, "level": "model_checking", "coverage": cov,
		"assumptions": assumptions, "wall_s": wall, "violations": nviol,
	}
	os.MkdirAll(filepath.Join(outDir, "evidence"), 0o755)
	writeJSON(filepath.Join(outDir, "evidence", prop+".json"), ev)
}

// cmdReplay: re-run a stored counterexample natively. Exit 1 if it reproduces.
func cmdReplay(args []string) int {
	if len(args) < 1 {
		fmt.Println("usage: symx replay <replay.json>")
		return 2
	}
	b, err := os.ReadFile(args[0])
	if err != nil {
		fmt.Println(err)
		return 2
	}
	var r struct {
		Property, Harness, Label, Kind, Pos string
	}
	if err := json.Unmarshal(b, &r); err != nil {
		fmt.Println(err)
		return 2
	}
	spec, err := loadSpec(filepath.Join(verifDir(), "harness", r.Property, "spec.json"))
	if err != nil {
		fmt.Println(err)
		return 2
	}
	hs := findHarnessSpec(spec, r.Harness)
	abs, _ := filepath.Abs(args[0])
	out := replayNative(spec, hs, abs, &Violation{Harness: r.Harness, Label: r.Label, Kind: r.Kind, Pos: r.Pos})
	fmt.Printf("replay %s: ran=%v reproduced=%v detail=%s\n", args[0], out.Ran, out.Reproduced, out.Detail)
	if out.Reproduced {
		return 1
	}
	return 0
}
