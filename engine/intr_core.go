package main

import (
	"fmt"
	"go/types"
	"math/big"
	"regexp"
	"sort"
	"strconv"
	"strings"

	"golang.org/x/tools/go/ssa"
)

const rtPkg = repoPath + "/verifrt."

func (ex *Exec) tryIntrinsic(fn *ssa.Function, args []Val) (Val, bool) {
	name := fn.String()
	if f, ok := intrinsics[name]; ok {
		if !ex.initing {
			ex.res.Intrinsics[name]++
		}
		return f(ex, args), true
	}
	// generic instantiation: try origin name
	if o := fn.Origin(); o != nil && o != fn {
		if f, ok := intrinsics[o.String()]; ok {
			if !ex.initing {
				ex.res.Intrinsics[o.String()]++
			}
			return f(ex, args), true
		}
	}
	// pointer-receiver wrapper of a value-receiver intrinsic: (*T).M -> (T).M
	if strings.HasPrefix(name, "(*") && len(args) > 0 {
		alt := "(" + name[2:]
		if f, ok := intrinsics[alt]; ok {
			if p, isPtr := args[0].(PtrV); isPtr {
				if p.C == nil {
					ex.goPanic("nil pointer dereference (method " + name + ")")
				}
				na := append([]Val{ex.load(p)}, args[1:]...)
				if !ex.initing {
					ex.res.Intrinsics[alt]++
				}
				return f(ex, na), true
			}
		}
	}
	// generated protobuf (Un)Marshal methods use the same typed-blob representation as the codec
	if r, ok := ex.pbIntrinsic(fn, args); ok {
		return r, true
	}
	// bound method closures / thunks are synthesized with bodies: let them run
	return nil, false
}

func (ex *Exec) pbIntrinsic(fn *ssa.Function, args []Val) (Val, bool) {
	n := fn.Name()
	if n != "Marshal" && n != "Unmarshal" {
		return nil, false
	}
	recv := fn.Signature.Recv()
	if recv == nil || len(args) == 0 {
		return nil, false
	}
	if fn.Pos().IsValid() {
		if f := ex.w.prog.Fset.Position(fn.Pos()).Filename; !strings.HasSuffix(f, ".pb.go") {
			return nil, false
		}
	} else if fn.Synthetic == "" {
		return nil, false
	}
	pt, ok := recv.Type().(*types.Pointer)
	if !ok {
		return nil, false
	}
	p, ok := args[0].(PtrV)
	if !ok {
		return nil, false
	}
	if p.C == nil {
		ex.goPanic("nil pointer dereference (proto " + n + ")")
	}
	ex.res.Intrinsics["proto:"+pt.Elem().String()+"."+n]++
	if n == "Marshal" && len(args) == 1 {
		return TupleV{BlobV{V: ex.freeze(ex.load(p)), Typ: recv.Type()}, IfaceV{}}, true
	}
	if n == "Unmarshal" && len(args) == 2 {
		switch b := args[1].(type) {
		case BlobV:
			if !types.Identical(b.Typ, recv.Type()) {
				ex.unmodelled(fmt.Sprintf("proto unmarshal type confusion: stored %s read as %s", b.Typ, recv.Type()))
			}
			ex.store(p, ex.thaw(b.V))
			return IfaceV{}, true
		case SliceV:
			if b.Nil || b.Len == 0 {
				return IfaceV{}, true
			}
		}
		ex.unmodelled("proto Unmarshal of raw bytes")
	}
	return nil, false
}

func (ex *Exec) callExternal(fn *ssa.Function, args []Val) Val {
	if r, ok := ex.tryIntrinsic(fn, args); ok {
		return r
	}
	if ex.initing {
		// tolerated during package init: opaque zero result
		res := fn.Signature.Results()
		switch res.Len() {
		case 0:
			return nil
		case 1:
			return ex.zero(res.At(0).Type())
		}
		return ex.zero(res)
	}
	ex.unmodelled("external call " + fn.String())
	return nil
}

func (ex *Exec) initExternalGlobals(p *ssa.Package) {
	// selected dependency globals that repo code reads
	// registered error values of dependency packages that repo code returns (their package
	// initialisers are not run): every exported package-level *errors.Error variable gets a
	// distinct root identity
	switch p.Pkg.Path() {
	case "github.com/cosmos/cosmos-sdk/x/gov/types", "github.com/cosmos/cosmos-sdk/types/errors":
		for name, m := range p.Members {
			g, ok := m.(*ssa.Global)
			if !ok || !strings.HasPrefix(name, "Err") {
				continue
			}
			if pt, ok := g.Type().(*types.Pointer); ok && typeKey(pt.Elem()) == "*cosmossdk.io/errors.Error" || ok && strings.HasSuffix(pt.Elem().String(), "cosmossdk.io/errors.Error") {
				ex.globals[g].V = PtrV{C: ex.newCell(&ErrV{Root: p.Pkg.Path() + "." + name, Msg: name})}
			}
		}
	}
	switch p.Pkg.Path() {
	case "github.com/cosmos/ibc-go/v7/modules/core/02-client/types":
		// var IsRevisionFormat = regexp.MustCompile(`^.*[^\n-]-{1}[1-9][0-9]*$`).MatchString
		if g, ok := p.Members["IsRevisionFormat"].(*ssa.Global); ok {
			re := regexp.MustCompile(`^.*[^\n-]-{1}[1-9][0-9]*$`)
			ex.globals[g].V = FuncV{Name: "ibcclienttypes.IsRevisionFormat", Native: func(ex *Exec, a []Val) Val {
				return ex.tf.Bool(re.MatchString(ex.argStr(a[0], "chain id")))
			}}
		}
	case "github.com/cosmos/cosmos-sdk/types":
		// sdk.DefaultBondDenom etc. keep zero; PowerReduction used by TokensToConsensusPower
		if g, ok := p.Members["DefaultPowerReduction"].(*ssa.Global); ok {
			ex.globals[g].V = BigV{T: ex.tf.Inti(1000000)}
		}
		if g, ok := p.Members["DefaultBondDenom"].(*ssa.Global); ok {
			ex.globals[g].V = ex.mkStr("stake")
		}
		// function-valued aliases of cosmossdk.io/math in sdk/types/math.go
		alias := map[string]string{
			"NewIntFromBigInt": "NewIntFromBigInt", "OneInt": "OneInt", "NewInt": "NewInt", "ZeroInt": "ZeroInt",
			"NewIntFromString": "NewIntFromString", "NewUint": "NewUint", "NewIntFromUint64": "NewIntFromUint64",
			"MaxInt": "MaxInt", "MinInt": "MinInt",
			"ZeroDec": "LegacyZeroDec", "OneDec": "LegacyOneDec", "SmallestDec": "LegacySmallestDec", "NewDec": "LegacyNewDec",
			"NewDecWithPrec": "LegacyNewDecWithPrec", "NewDecFromBigInt": "LegacyNewDecFromBigInt",
			"NewDecFromBigIntWithPrec": "LegacyNewDecFromBigIntWithPrec", "NewDecFromInt": "LegacyNewDecFromInt",
			"NewDecFromIntWithPrec": "LegacyNewDecFromIntWithPrec", "NewDecFromStr": "LegacyNewDecFromStr",
			"MustNewDecFromStr": "LegacyMustNewDecFromStr", "MinDec": "LegacyMinDec", "MaxDec": "LegacyMaxDec",
		}
		for gname, fname := range alias {
			if g, ok := p.Members[gname].(*ssa.Global); ok {
				if f, ok := intrinsics["cosmossdk.io/math."+fname]; ok {
					iname := "cosmossdk.io/math." + fname
					ex.globals[g].V = FuncV{Name: iname, Native: func(ex *Exec, a []Val) Val {
						ex.res.Intrinsics[iname]++
						return f(ex, a)
					}}
				}
			}
		}
	}
}

func (ex *Exec) newErr(root, msg string) IfaceV {
	return IfaceV{T: symxErrorType, V: &ErrV{Root: root, Msg: msg}}
}

func errOf(v Val) *ErrV {
	iv, ok := v.(IfaceV)
	if !ok || iv.T == nil {
		return nil
	}
	if e, ok := iv.V.(*ErrV); ok {
		return e
	}
	if p, ok := iv.V.(PtrV); ok && p.C != nil {
		if e, ok := p.C.V.(*ErrV); ok {
			return e
		}
	}
	return nil
}

// nativeInvoke handles interface method calls on engine-native values.
func (ex *Exec) nativeInvoke(iv IfaceV, m *types.Func, args []Val) (Val, bool) {
	switch x := iv.V.(type) {
	case *ErrV:
		switch m.Name() {
		case "Error":
			return StrV{Opaque: true, Tag: "err:" + x.Root}, true
		case "Unwrap":
			return IfaceV{}, true
		}
	case NativeObj:
		ex.res.Intrinsics["native:"+fmt.Sprintf("%T", x)+"."+m.Name()]++
		return x.Invoke(ex, m.Name(), args), true
	case PtrV:
		if x.C != nil {
			if e, ok := x.C.V.(*ErrV); ok && m.Name() == "Error" {
				return StrV{Opaque: true, Tag: "err:" + e.Root}, true
			}
			if n, ok := x.C.V.(NativeObj); ok {
				ex.res.Intrinsics["native:"+fmt.Sprintf("%T", n)+"."+m.Name()]++
				return n.Invoke(ex, m.Name(), args), true
			}
		}
	}
	return nil, false
}

func (ex *Exec) declInput(name, kind string, s Sort) *Term {
	ex.inNames[name]++
	n := name
	if c := ex.inNames[name]; c > 1 {
		n = name + "#" + strconv.Itoa(c)
	}
	t := ex.tf.Var(n, s)
	ex.inputs = append(ex.inputs, InputDecl{Name: n, Kind: kind, T: t})
	return t
}

func (ex *Exec) argStr(v Val, what string) string { return ex.mustConcreteStr(v, what) }

func init() {
	// ---------- verifrt ----------
	reg(rtPkg+"Bool", func(ex *Exec, a []Val) Val { return ex.declInput(ex.argStr(a[0], "name"), "bool", BoolSort) })
	reg(rtPkg+"U64", func(ex *Exec, a []Val) Val { return ex.declInput(ex.argStr(a[0], "name"), "bv", BVSort(64)) })
	reg(rtPkg+"I64", func(ex *Exec, a []Val) Val { return ex.declInput(ex.argStr(a[0], "name"), "sbv", BVSort(64)) })
	reg(rtPkg+"U32", func(ex *Exec, a []Val) Val { return ex.declInput(ex.argStr(a[0], "name"), "bv", BVSort(32)) })
	reg(rtPkg+"U8", func(ex *Exec, a []Val) Val { return ex.declInput(ex.argStr(a[0], "name"), "bv", BVSort(8)) })
	reg(rtPkg+"Int", func(ex *Exec, a []Val) Val {
		t := ex.declInput(ex.argStr(a[0], "name"), "int", IntSort)
		ex.axiom(ex.tf.And(ex.tf.ILt(t, ex.tf.IntConst(pow256)), ex.tf.IGt(t, ex.tf.IntConst(new(big.Int).Neg(pow256)))))
		return BigV{T: t}
	})
	reg(rtPkg+"BigInt", func(ex *Exec, a []Val) Val {
		t := ex.declInput(ex.argStr(a[0], "name"), "int", IntSort)
		return ex.newBigPtr(t)
	})
	reg(rtPkg+"Dec", func(ex *Exec, a []Val) Val {
		t := ex.declInput(ex.argStr(a[0], "name"), "int", IntSort)
		ex.axiom(ex.tf.And(ex.tf.ILt(t, ex.tf.IntConst(pow315)), ex.tf.IGt(t, ex.tf.IntConst(new(big.Int).Neg(pow315)))))
		return DecV{T: t}
	})
	reg(rtPkg+"Choice", func(ex *Exec, a []Val) Val {
		n := ex.concretizeInt(a[1].(*Term), 0, 64, "Choice n")
		t := ex.declInput(ex.argStr(a[0], "name"), "sbv", BVSort(64))
		for i := 0; i < n-1; i++ {
			if ex.Branch(ex.tf.Eq(t, ex.tf.BVu(uint64(i), 64))) {
				return ex.tf.BVu(uint64(i), 64)
			}
		}
		ex.Assume(ex.tf.Eq(t, ex.tf.BVu(uint64(n-1), 64)))
		return ex.tf.BVu(uint64(n-1), 64)
	})
	reg(rtPkg+"Bytes", func(ex *Exec, a []Val) Val {
		nm := ex.argStr(a[0], "name")
		n := ex.concretizeInt(a[1].(*Term), 0, 4096, "Bytes len")
		bs := make([]*Term, n)
		for i := range bs {
			bs[i] = ex.declInput(fmt.Sprintf("%s[%d]", nm, i), "bv", BVSort(8))
		}
		return ex.mkBytes(bs)
	})
	reg(rtPkg+"Param", func(ex *Exec, a []Val) Val {
		nm := ex.argStr(a[0], "param")
		if v, ok := ex.harness.Params[nm]; ok {
			return ex.tf.BVi(int64(v), 64)
		}
		return a[1]
	})
	reg(rtPkg+"Assume", func(ex *Exec, a []Val) Val { ex.Assume(a[0].(*Term)); return nil })
	reg(rtPkg+"Assert", func(ex *Exec, a []Val) Val {
		ex.Assert(a[0].(*Term), ex.argStr(a[1], "label"))
		return nil
	})
	reg(rtPkg+"All", func(ex *Exec, a []Val) Val {
		var ts []*Term
		for _, v := range ex.sliceElems(a[0].(SliceV)) {
			ts = append(ts, v.(*Term))
		}
		return ex.tf.And(ts...)
	})
	reg(rtPkg+"Any", func(ex *Exec, a []Val) Val {
		var ts []*Term
		for _, v := range ex.sliceElems(a[0].(SliceV)) {
			ts = append(ts, v.(*Term))
		}
		return ex.tf.Or(ts...)
	})
	reg(rtPkg+"Ite", func(ex *Exec, a []Val) Val {
		return BigV{T: ex.tf.Ite(a[0].(*Term), ex.bigArg(a[1], "Ite"), ex.bigArg(a[2], "Ite"))}
	})
	reg(rtPkg+"IteI64", func(ex *Exec, a []Val) Val { return ex.tf.Ite(a[0].(*Term), a[1].(*Term), a[2].(*Term)) })
	reg(rtPkg+"IteDec", func(ex *Exec, a []Val) Val {
		return DecV{T: ex.tf.Ite(a[0].(*Term), ex.decArg(a[1], "IteDec"), ex.decArg(a[2], "IteDec"))}
	})
	reg(rtPkg+"Debug", func(ex *Exec, a []Val) Val { return nil })
	reg(rtPkg+"Cover", func(ex *Exec, a []Val) Val { ex.res.Covers[ex.argStr(a[0], "label")] = true; return nil })
	reg(rtPkg+"Known", func(ex *Exec, a []Val) Val { return ex.tf.Bool(ex.known[ex.argStr(a[0], "id")]) })
	reg(rtPkg+"MapOrder", func(ex *Exec, a []Val) Val { ex.mapOrder = ex.argStr(a[0], "mode"); return nil })
	reg(rtPkg+"Unwind", func(ex *Exec, a []Val) Val {
		ex.unwind = ex.concretizeInt(a[0].(*Term), 1, 1<<20, "Unwind")
		return nil
	})
	reg(rtPkg+"Try", func(ex *Exec, a []Val) Val {
		f := a[0].(FuncV)
		panicked := false
		func() {
			saveFrames := len(ex.frames)
			saveDepth := ex.depth
			defer func() {
				if r := recover(); r != nil {
					if _, ok := r.(*goPanicSig); ok {
						panicked = true
						ex.frames = ex.frames[:saveFrames]
						ex.depth = saveDepth
						return
					}
					panic(r)
				}
			}()
			ex.callClosure(f, nil)
		}()
		return ex.tf.Bool(panicked)
	})

	// ---------- errors ----------
	reg("cosmossdk.io/errors.Register", func(ex *Exec, a []Val) Val {
		cs, _ := ex.concreteStr(a[0])
		code := "?"
		if t, ok := a[1].(*Term); ok && t.IsConst() {
			code = t.C.String()
		}
		e := &ErrV{Root: cs + "/" + code}
		if d, ok := ex.concreteStr(a[2]); ok {
			e.Msg = d
		}
		return PtrV{C: ex.newCell(e)}
	})
	intrinsics["cosmossdk.io/errors.RegisterWithGRPCCode"] = intrinsics["cosmossdk.io/errors.Register"]
	wrap := func(ex *Exec, a []Val) Val {
		e := errOf(a[0])
		if e == nil {
			if iv, ok := a[0].(IfaceV); ok && iv.T == nil {
				return IfaceV{}
			}
			// foreign error type: keep identity opaque
			return ex.newErr("wrapped-foreign", "")
		}
		return ex.newErr(e.Root, e.Msg)
	}
	reg("cosmossdk.io/errors.Wrap", wrap)
	reg("cosmossdk.io/errors.Wrapf", wrap)
	reg("github.com/pkg/errors.Wrap", wrap)
	reg("github.com/pkg/errors.Wrapf", wrap)
	reg("(*cosmossdk.io/errors.Error).Wrap", func(ex *Exec, a []Val) Val {
		p := a[0].(PtrV)
		if p.C == nil {
			ex.goPanic("nil *errors.Error")
		}
		e := p.C.V.(*ErrV)
		return ex.newErr(e.Root, e.Msg)
	})
	intrinsics["(*cosmossdk.io/errors.Error).Wrapf"] = intrinsics["(*cosmossdk.io/errors.Error).Wrap"]
	reg("(*cosmossdk.io/errors.Error).Error", func(ex *Exec, a []Val) Val {
		return StrV{Opaque: true, Tag: "err"}
	})
	reg("(*cosmossdk.io/errors.Error).Is", func(ex *Exec, a []Val) Val {
		p := a[0].(PtrV)
		e2 := errOf(a[1])
		return ex.tf.Bool(p.C != nil && e2 != nil && p.C.V.(*ErrV).Root == e2.Root)
	})
	reg("(*cosmossdk.io/errors.Error).ABCICode", func(ex *Exec, a []Val) Val { return ex.tf.BVu(1, 32) })
	errIs := func(ex *Exec, a []Val) Val {
		e1, e2 := errOf(a[0]), errOf(a[1])
		if e1 == nil || e2 == nil {
			i1, ok1 := a[0].(IfaceV)
			i2, ok2 := a[1].(IfaceV)
			if ok1 && ok2 && i1.T == nil && i2.T == nil {
				return ex.tf.T
			}
			return ex.tf.F
		}
		return ex.tf.Bool(e1 == e2 || (e1.Root == e2.Root && e1.Root != "" && !strings.HasPrefix(e1.Root, "new#")))
	}
	reg("errors.Is", errIs)
	reg("cosmossdk.io/errors.IsOf", func(ex *Exec, a []Val) Val {
		e1 := errOf(a[0])
		if e1 == nil {
			return ex.tf.F
		}
		for _, t := range ex.sliceElems(a[1].(SliceV)) {
			if e2 := errOf(t); e2 != nil && e1.Root == e2.Root {
				return ex.tf.T
			}
		}
		return ex.tf.F
	})
	reg("errors.New", func(ex *Exec, a []Val) Val {
		ex.fresh++
		msg, _ := ex.concreteStr(a[0])
		return ex.newErr(fmt.Sprintf("new#%d", ex.fresh), msg)
	})
	intrinsics["github.com/pkg/errors.New"] = intrinsics["errors.New"]
	reg("fmt.Errorf", func(ex *Exec, a []Val) Val {
		format, _ := ex.concreteStr(a[0])
		if strings.Contains(format, "%w") {
			for _, v := range ex.sliceElems(a[1].(SliceV)) {
				if e := errOf(v); e != nil {
					return ex.newErr(e.Root, format)
				}
			}
		}
		ex.fresh++
		return ex.newErr(fmt.Sprintf("new#%d", ex.fresh), format)
	})
	intrinsics["github.com/pkg/errors.Errorf"] = intrinsics["fmt.Errorf"]
	intrinsics["golang.org/x/xerrors.Errorf"] = intrinsics["fmt.Errorf"]
	reg("errors.Join", func(ex *Exec, a []Val) Val {
		for _, v := range ex.sliceElems(a[0].(SliceV)) {
			if iv, ok := v.(IfaceV); ok && iv.T != nil {
				ex.fresh++
				return ex.newErr(fmt.Sprintf("new#%d", ex.fresh), "joined")
			}
		}
		return IfaceV{}
	})

	// ---------- fmt ----------
	reg("fmt.Sprintf", func(ex *Exec, a []Val) Val { return ex.sprintf(a[0], ex.sliceElems(a[1].(SliceV))) })
	reg("fmt.Sprint", func(ex *Exec, a []Val) Val {
		el := ex.sliceElems(a[0].(SliceV))
		if len(el) == 1 {
			if s, ok := ex.fmtArg(el[0], 'v'); ok {
				return ex.mkStr(s)
			}
		}
		return StrV{Opaque: true, Tag: "sprint"}
	})
	reg("fmt.Println", func(ex *Exec, a []Val) Val { return TupleV{ex.tf.BVu(0, 64), IfaceV{}} })
	reg("fmt.Printf", func(ex *Exec, a []Val) Val { return TupleV{ex.tf.BVu(0, 64), IfaceV{}} })
	reg("fmt.Print", func(ex *Exec, a []Val) Val { return TupleV{ex.tf.BVu(0, 64), IfaceV{}} })

	// ---------- strings / bytes ----------
	slicesIndex := func(ex *Exec, a []Val) int {
		sv, ok := a[0].(SliceV)
		if !ok || sv.Nil {
			return -1
		}
		for i, e := range ex.sliceElems(sv) {
			if ex.Branch(ex.valEq(e, a[1])) {
				return i
			}
		}
		return -1
	}
	for _, pk := range []string{"slices.", "golang.org/x/exp/slices."} {
		reg(pk+"Contains", func(ex *Exec, a []Val) Val { return ex.tf.Bool(slicesIndex(ex, a) >= 0) })
		reg(pk+"Index", func(ex *Exec, a []Val) Val { return ex.tf.BVi(int64(slicesIndex(ex, a)), 64) })
	}
	reg("strings.Join", func(ex *Exec, a []Val) Val {
		el := ex.sliceElems(a[0].(SliceV))
		sep := ex.bytesOf(a[1])
		var out []*Term
		for i, e := range el {
			if i > 0 {
				out = append(out, sep...)
			}
			out = append(out, ex.bytesOf(e)...)
		}
		return StrV{B: out}
	})
	reg("strings.Split", func(ex *Exec, a []Val) Val {
		parts := ex.splitBytes(ex.bytesOf(a[0]), ex.bytesOf(a[1]), -1)
		el := make([]Val, len(parts))
		for i, p := range parts {
			el[i] = StrV{B: p}
		}
		return ex.newSlice(el, len(el))
	})
	reg("strings.SplitN", func(ex *Exec, a []Val) Val {
		n := ex.concretizeInt(a[2].(*Term), -1, 64, "SplitN")
		parts := ex.splitBytes(ex.bytesOf(a[0]), ex.bytesOf(a[1]), n)
		el := make([]Val, len(parts))
		for i, p := range parts {
			el[i] = StrV{B: p}
		}
		return ex.newSlice(el, len(el))
	})
	reg("bytes.Split", func(ex *Exec, a []Val) Val {
		parts := ex.splitBytes(ex.bytesOf(a[0]), ex.bytesOf(a[1]), -1)
		el := make([]Val, len(parts))
		for i, p := range parts {
			el[i] = ex.mkBytes(p)
		}
		return ex.newSlice(el, len(el))
	})
	reg("strings.HasPrefix", func(ex *Exec, a []Val) Val { return ex.hasPrefix(ex.bytesOf(a[0]), ex.bytesOf(a[1])) })
	reg("bytes.HasPrefix", func(ex *Exec, a []Val) Val { return ex.hasPrefix(ex.bytesOf(a[0]), ex.bytesOf(a[1])) })
	reg("strings.HasSuffix", func(ex *Exec, a []Val) Val {
		s, p := ex.bytesOf(a[0]), ex.bytesOf(a[1])
		if len(p) > len(s) {
			return ex.tf.F
		}
		return ex.bytesEq(s[len(s)-len(p):], p)
	})
	reg("strings.TrimPrefix", func(ex *Exec, a []Val) Val {
		s, p := ex.bytesOf(a[0]), ex.bytesOf(a[1])
		if ex.Branch(ex.hasPrefix(s, p)) {
			return StrV{B: s[len(p):]}
		}
		return a[0]
	})
	reg("strings.Contains", func(ex *Exec, a []Val) Val {
		s, p := ex.bytesOf(a[0]), ex.bytesOf(a[1])
		var cs []*Term
		for i := 0; i+len(p) <= len(s); i++ {
			cs = append(cs, ex.bytesEq(s[i:i+len(p)], p))
		}
		return ex.tf.Or(cs...)
	})
	reg("strings.Index", func(ex *Exec, a []Val) Val {
		s, p := ex.bytesOf(a[0]), ex.bytesOf(a[1])
		for i := 0; i+len(p) <= len(s); i++ {
			if ex.Branch(ex.bytesEq(s[i:i+len(p)], p)) {
				return ex.tf.BVi(int64(i), 64)
			}
		}
		return ex.tf.BVi(-1, 64)
	})
	reg("strings.ToLower", func(ex *Exec, a []Val) Val {
		s := ex.bytesOf(a[0])
		out := make([]*Term, len(s))
		for i, c := range s {
			isUp := ex.tf.And(ex.tf.BVUle(ex.tf.BVu('A', 8), c), ex.tf.BVUle(c, ex.tf.BVu('Z', 8)))
			out[i] = ex.tf.Ite(isUp, ex.tf.BVAdd(c, ex.tf.BVu(32, 8)), c)
		}
		return StrV{B: out}
	})
	reg("strings.ToUpper", func(ex *Exec, a []Val) Val {
		s := ex.bytesOf(a[0])
		out := make([]*Term, len(s))
		for i, c := range s {
			isLo := ex.tf.And(ex.tf.BVUle(ex.tf.BVu('a', 8), c), ex.tf.BVUle(c, ex.tf.BVu('z', 8)))
			out[i] = ex.tf.Ite(isLo, ex.tf.BVSub(c, ex.tf.BVu(32, 8)), c)
		}
		return StrV{B: out}
	})
	reg("strings.EqualFold", func(ex *Exec, a []Val) Val {
		lower := intrinsics["strings.ToLower"]
		x := lower(ex, []Val{a[0]}).(StrV)
		y := lower(ex, []Val{a[1]}).(StrV)
		return ex.bytesEq(x.B, y.B)
	})
	reg("strings.TrimSpace", func(ex *Exec, a []Val) Val {
		s := ex.mustConcreteStr(a[0], "TrimSpace")
		return ex.mkStr(strings.TrimSpace(s))
	})
	reg("strings.Compare", func(ex *Exec, a []Val) Val {
		x, y := ex.bytesOf(a[0]), ex.bytesOf(a[1])
		return ex.tf.Ite(ex.bytesLt(x, y), ex.tf.BVi(-1, 64), ex.tf.Ite(ex.bytesEq(x, y), ex.tf.BVi(0, 64), ex.tf.BVi(1, 64)))
	})
	reg("bytes.Equal", func(ex *Exec, a []Val) Val {
		// two codec blobs of the same message type: equal encodings iff equal (normalised) values
		if x, ok := a[0].(BlobV); ok {
			if y, ok := a[1].(BlobV); ok && types.Identical(x.Typ, y.Typ) {
				return ex.valEq(x.V, y.V)
			}
		}
		return ex.bytesEq(ex.bytesOf(a[0]), ex.bytesOf(a[1]))
	})
	reg("bytes.Compare", func(ex *Exec, a []Val) Val {
		x, y := ex.bytesOf(a[0]), ex.bytesOf(a[1])
		return ex.tf.Ite(ex.bytesLt(x, y), ex.tf.BVi(-1, 64), ex.tf.Ite(ex.bytesEq(x, y), ex.tf.BVi(0, 64), ex.tf.BVi(1, 64)))
	})
	reg("bytes.Join", func(ex *Exec, a []Val) Val {
		el := ex.sliceElems(a[0].(SliceV))
		sep := ex.bytesOf(a[1])
		var out []*Term
		for i, e := range el {
			if i > 0 {
				out = append(out, sep...)
			}
			out = append(out, ex.bytesOf(e)...)
		}
		return ex.mkBytes(out)
	})
	reg("bytes.Repeat", func(ex *Exec, a []Val) Val {
		b := ex.bytesOf(a[0])
		n := ex.concretizeInt(a[1].(*Term), 0, 4096, "bytes.Repeat")
		var out []*Term
		for i := 0; i < n; i++ {
			out = append(out, b...)
		}
		return ex.mkBytes(out)
	})

	// ---------- strconv ----------
	reg("strconv.Itoa", func(ex *Exec, a []Val) Val { return ex.formatInt(a[0].(*Term), true, 10) })
	reg("strconv.FormatUint", func(ex *Exec, a []Val) Val {
		base := ex.concretizeInt(a[1].(*Term), 2, 36, "FormatUint base")
		return ex.formatInt(a[0].(*Term), false, base)
	})
	reg("strconv.FormatInt", func(ex *Exec, a []Val) Val {
		base := ex.concretizeInt(a[1].(*Term), 2, 36, "FormatInt base")
		return ex.formatInt(a[0].(*Term), true, base)
	})
	reg("strconv.ParseUint", func(ex *Exec, a []Val) Val {
		base := ex.concretizeInt(a[1].(*Term), 0, 36, "ParseUint base")
		bits := ex.concretizeInt(a[2].(*Term), 0, 64, "ParseUint bits")
		return ex.parseUint(ex.bytesOf(a[0]), base, bits)
	})
	reg("strconv.Atoi", func(ex *Exec, a []Val) Val {
		s, ok := ex.concreteStr(a[0])
		if !ok {
			ex.unmodelled("Atoi of symbolic string")
		}
		v, err := strconv.Atoi(s)
		if err != nil {
			return TupleV{ex.tf.BVu(0, 64), ex.newErr("strconv.Atoi", err.Error())}
		}
		return TupleV{ex.tf.BVi(int64(v), 64), IfaceV{}}
	})
	reg("strconv.ParseInt", func(ex *Exec, a []Val) Val {
		s, ok := ex.concreteStr(a[0])
		if !ok {
			ex.unmodelled("ParseInt of symbolic string")
		}
		base := ex.concretizeInt(a[1].(*Term), 0, 36, "ParseInt base")
		bits := ex.concretizeInt(a[2].(*Term), 0, 64, "ParseInt bits")
		v, err := strconv.ParseInt(s, base, bits)
		if err != nil {
			return TupleV{ex.tf.BVi(v, 64), ex.newErr("strconv.ParseInt", err.Error())}
		}
		return TupleV{ex.tf.BVi(v, 64), IfaceV{}}
	})

	// ---------- sort ----------
	reg("sort.Slice", func(ex *Exec, a []Val) Val { ex.sortSlice(a[0], a[1].(FuncV), false); return nil })
	reg("sort.SliceStable", func(ex *Exec, a []Val) Val { ex.sortSlice(a[0], a[1].(FuncV), true); return nil })
	sortIface := func(stable bool) Intrinsic {
		return func(ex *Exec, a []Val) Val {
			iv := a[0].(IfaceV)
			n := ex.concretizeInt(ex.invokeByName(iv, "Len", nil).(*Term), 0, 64, "sort.Sort Len")
			less := func(i, j int) *Term {
				return ex.invokeByName(iv, "Less", []Val{ex.tf.BVu(uint64(i), 64), ex.tf.BVu(uint64(j), 64)}).(*Term)
			}
			for i := 1; i < n; i++ {
				j := i
				for j > 0 {
					if ex.Branch(less(j, j-1)) {
						ex.invokeByName(iv, "Swap", []Val{ex.tf.BVu(uint64(j), 64), ex.tf.BVu(uint64(j-1), 64)})
						j--
						continue
					}
					if !stable && ex.mapOrder == "permute" {
						if !ex.Branch(less(j-1, j)) {
							if ex.Branch(ex.freshVar("sorttie", BoolSort)) {
								ex.invokeByName(iv, "Swap", []Val{ex.tf.BVu(uint64(j), 64), ex.tf.BVu(uint64(j-1), 64)})
								j--
								continue
							}
						}
					}
					break
				}
			}
			return nil
		}
	}
	reg("sort.Sort", sortIface(false))
	reg("sort.Stable", sortIface(true))
	reg("sort.Strings", func(ex *Exec, a []Val) Val {
		s := a[0].(SliceV)
		el := append([]Val{}, ex.sliceElems(s)...)
		ex.insertionSort(el, func(x, y Val) *Term { return ex.bytesLt(ex.bytesOf(x), ex.bytesOf(y)) })
		for i, e := range el {
			ex.store(s.P.sub(s.Off+i), e)
		}
		return nil
	})
}

// insertion sort with symbolic comparisons (forks). Stable.
func (ex *Exec) insertionSort(el []Val, less func(a, b Val) *Term) {
	for i := 1; i < len(el); i++ {
		j := i
		for j > 0 && ex.Branch(less(el[j], el[j-1])) {
			el[j], el[j-1] = el[j-1], el[j]
			j--
		}
	}
}

func (ex *Exec) sortSlice(sv Val, less FuncV, stable bool) {
	iv, ok := sv.(IfaceV)
	if !ok {
		panic(engineErr("sort.Slice arg"))
	}
	s, ok := iv.V.(SliceV)
	if !ok {
		ex.goPanic("sort.Slice on non-slice")
	}
	n := s.Len
	if n < 2 {
		return
	}
	// The less function reads the slice by index, so sort in place with swaps.
	// Model: insertion sort; for unstable sort the order of less-ties is chosen symbolically.
	get := func(i int) Val { return ex.load(s.P.sub(s.Off + i)) }
	swap := func(i, j int) {
		a, b := get(i), get(j)
		ex.store(s.P.sub(s.Off+i), b)
		ex.store(s.P.sub(s.Off+j), a)
	}
	callLess := func(i, j int) *Term {
		r := ex.callClosure(less, []Val{ex.tf.BVu(uint64(i), 64), ex.tf.BVu(uint64(j), 64)})
		return r.(*Term)
	}
	for i := 1; i < n; i++ {
		j := i
		for j > 0 {
			lt := callLess(j, j-1)
			if ex.Branch(lt) {
				swap(j, j-1)
				j--
				continue
			}
			if !stable && ex.mapOrder == "permute" {
				// tie (neither less): unstable sort may order either way
				gt := callLess(j-1, j)
				if !ex.Branch(gt) {
					tie := ex.freshVar("sorttie", BoolSort)
					if ex.Branch(tie) {
						swap(j, j-1)
						j--
						continue
					}
				}
			}
			break
		}
	}
}

func (ex *Exec) splitBytes(s, sep []*Term, n int) [][]*Term {
	if len(sep) == 0 {
		ex.unmodelled("split with empty separator")
	}
	var parts [][]*Term
	start := 0
	i := 0
	for i+len(sep) <= len(s) {
		if n > 0 && len(parts) == n-1 {
			break
		}
		if ex.Branch(ex.bytesEq(s[i:i+len(sep)], sep)) {
			parts = append(parts, s[start:i])
			i += len(sep)
			start = i
		} else {
			i++
		}
	}
	parts = append(parts, s[start:])
	return parts
}

// formatInt renders an integer in the given base; symbolic values fork on the digit count.
func (ex *Exec) formatInt(t *Term, signed bool, base int) Val {
	tf := ex.tf
	w := t.Sort.W
	if t.IsConst() {
		if signed {
			return ex.mkStr(signedOf(t.C, w).Text(base))
		}
		return ex.mkStr(t.C.Text(base))
	}
	if base == 10 {
		// decimal rendering of a symbolic integer is only used for messages/events in the code under
		// test; inspecting the result is reported as unmodelled
		return StrV{Opaque: true, Tag: "decimal-int"}
	}
	if signed {
		if ex.Branch(tf.BVSlt(t, tf.BVu(0, w))) {
			ex.unmodelled("format of negative symbolic integer")
		}
	}
	if base != 16 && base != 10 && base != 2 {
		ex.unmodelled("format symbolic integer in base " + strconv.Itoa(base))
	}
	return StrV{B: ex.digitsOf(t, base)}
}

const hexdigits = "0123456789abcdef"

func (ex *Exec) digitChar(d *Term) *Term {
	// d: BV8 digit value 0..15 -> ASCII
	tf := ex.tf
	return tf.Ite(tf.BVUlt(d, tf.BVu(10, 8)), tf.BVAdd(d, tf.BVu('0', 8)), tf.BVAdd(d, tf.BVu('a'-10, 8)))
}

// digitsOf: minimal-length digit string of unsigned t in base 16/10/2 (forks on length).
func (ex *Exec) digitsOf(t *Term, base int) []*Term {
	tf := ex.tf
	w := t.Sort.W
	if base == 16 || base == 2 {
		bits := 4
		if base == 2 {
			bits = 1
		}
		maxd := (w + bits - 1) / bits
		// number of digits n: t < base^n and (n==1 or t >= base^(n-1))
		n := 1
		for ; n < maxd; n++ {
			lim := new(big.Int).Lsh(big.NewInt(1), uint(bits*n))
			if ex.Branch(tf.BVUlt(t, tf.BVConst(lim, w))) {
				break
			}
		}
		out := make([]*Term, n)
		for i := 0; i < n; i++ {
			lo := bits * (n - 1 - i)
			hi := lo + bits - 1
			if hi >= w {
				hi = w - 1
			}
			d := tf.ZExt(tf.Extract(hi, lo, t), 8)
			out[i] = ex.digitChar(d)
		}
		return out
	}
	// base 10
	maxd := len(new(big.Int).Lsh(big.NewInt(1), uint(w)).String())
	n := 1
	p := big.NewInt(10)
	for ; n < maxd; n++ {
		if p.BitLen() > w {
			break
		}
		if ex.Branch(tf.BVUlt(t, tf.BVConst(p, w))) {
			break
		}
		p = new(big.Int).Mul(p, big.NewInt(10))
	}
	out := make([]*Term, n)
	cur := t
	ten := tf.BVu(10, w)
	for i := n - 1; i >= 0; i-- {
		d := tf.Extract(7, 0, tf.BVURem(cur, ten))
		out[i] = tf.BVAdd(d, tf.BVu('0', 8))
		cur = tf.BVUDiv(cur, ten)
	}
	return out
}

// parseUint over possibly symbolic digit bytes (base 10/16/0), mirroring strconv.ParseUint.
func (ex *Exec) parseUint(s []*Term, base, bits int) Val {
	tf := ex.tf
	if cs, ok := concreteBytes(s); ok {
		v, err := strconv.ParseUint(cs, base, bits)
		if err != nil {
			return TupleV{tf.BVu(v, 64), ex.newErr("strconv.ParseUint", err.Error())}
		}
		return TupleV{tf.BVu(v, 64), IfaceV{}}
	}
	if base != 10 && base != 16 {
		ex.unmodelled("ParseUint symbolic with base " + strconv.Itoa(base))
	}
	if bits == 0 {
		bits = 64
	}
	if len(s) == 0 {
		return TupleV{tf.BVu(0, 64), ex.newErr("strconv.ParseUint", "invalid syntax")}
	}
	acc := tf.Inti(0)
	for _, c := range s {
		var isDigit, dv *Term
		isDec := tf.And(tf.BVUle(tf.BVu('0', 8), c), tf.BVUle(c, tf.BVu('9', 8)))
		decv := tf.BVSub(c, tf.BVu('0', 8))
		if base == 10 {
			isDigit, dv = isDec, decv
		} else {
			isLo := tf.And(tf.BVUle(tf.BVu('a', 8), c), tf.BVUle(c, tf.BVu('f', 8)))
			isUp := tf.And(tf.BVUle(tf.BVu('A', 8), c), tf.BVUle(c, tf.BVu('F', 8)))
			isDigit = tf.Or(isDec, isLo, isUp)
			dv = tf.Ite(isDec, decv, tf.Ite(isLo, tf.BVSub(c, tf.BVu('a'-10, 8)), tf.BVSub(c, tf.BVu('A'-10, 8))))
		}
		if !ex.Branch(isDigit) {
			return TupleV{tf.BVu(0, 64), ex.newErr("strconv.ParseUint", "invalid syntax")}
		}
		acc = tf.IAdd(tf.IMul(acc, tf.Inti(int64(base))), tf.BV2Int(dv, false))
	}
	lim := new(big.Int).Lsh(big.NewInt(1), uint(bits))
	if !ex.Branch(tf.ILt(acc, tf.IntConst(lim))) {
		return TupleV{tf.BVConst(new(big.Int).Sub(lim, one), 64), ex.newErr("strconv.ParseUint", "value out of range")}
	}
	return TupleV{tf.Int2BV(acc, 64), IfaceV{}}
}

func (ex *Exec) fmtArg(v Val, verb byte) (string, bool) {
	if iv, ok := v.(IfaceV); ok {
		if iv.T == nil {
			return "<nil>", true
		}
		v = iv.V
	}
	switch x := v.(type) {
	case StrV:
		if s, ok := ex.concreteStr(x); ok {
			if verb == 'x' {
				return fmt.Sprintf("%x", s), true
			}
			if verb == 'q' {
				return fmt.Sprintf("%q", s), true
			}
			return s, true
		}
	case *Term:
		if x.IsConst() {
			if x.Sort.K == SBool {
				return fmt.Sprint(x.IsTrue()), true
			}
			if verb == 'x' {
				return x.C.Text(16), true
			}
			return x.C.String(), true
		}
	case BigV:
		if !x.Nil && x.T.IsConst() {
			return x.T.C.String(), true
		}
	case DecV:
		if !x.Nil && x.T.IsConst() {
			return decString(x.T.C), true
		}
	case SliceV:
		if !x.Nil && x.Len > 0 {
			if _, isStr := ex.sliceGet(x, 0).(StrV); isStr {
				// a slice of strings prints as [a b c]
				parts := make([]string, 0, x.Len)
				for _, e := range ex.sliceElems(x) {
					es, ok := ex.concreteStr(e)
					if !ok {
						return "", false
					}
					parts = append(parts, es)
				}
				return "[" + strings.Join(parts, " ") + "]", true
			}
			if _, isTerm := ex.sliceGet(x, 0).(*Term); !isTerm {
				return "", false
			}
		}
		if s, ok := ex.concreteStr(x); ok {
			if verb == 'x' {
				return fmt.Sprintf("%x", s), true
			}
			if verb == 's' {
				return s, true
			}
		}
	}
	return "", false
}

func (ex *Exec) sprintf(format Val, args []Val) Val {
	f, ok := ex.concreteStr(format)
	if !ok {
		return StrV{Opaque: true, Tag: "sprintf"}
	}
	var sb strings.Builder
	ai := 0
	for i := 0; i < len(f); i++ {
		if f[i] != '%' {
			sb.WriteByte(f[i])
			continue
		}
		i++
		if i >= len(f) {
			break
		}
		if f[i] == '%' {
			sb.WriteByte('%')
			continue
		}
		// skip flags/width
		for i < len(f) && strings.IndexByte("+-# 0123456789.", f[i]) >= 0 {
			if f[i] >= '1' && f[i] <= '9' {
				return StrV{Opaque: true, Tag: "sprintf:" + f}
			}
			i++
		}
		if ai >= len(args) {
			return StrV{Opaque: true, Tag: "sprintf:" + f}
		}
		s, ok := ex.fmtArg(args[ai], f[i])
		ai++
		if !ok {
			return StrV{Opaque: true, Tag: "sprintf:" + f}
		}
		sb.WriteString(s)
	}
	return ex.mkStr(sb.String())
}

var _ = sort.Strings

// invokeByName calls a method of the dynamic type of an interface value.
func (ex *Exec) invokeByName(iv IfaceV, name string, args []Val) Val {
	if iv.T == nil {
		ex.goPanic("method " + name + " on nil interface")
	}
	ms := ex.w.prog.MethodSets.MethodSet(iv.T)
	for i := 0; i < ms.Len(); i++ {
		sel := ms.At(i)
		if sel.Obj().Name() == name {
			fn := ex.w.prog.MethodValue(sel)
			full := append([]Val{iv.V}, args...)
			if r, ok := ex.tryIntrinsic(fn, full); ok {
				return r
			}
			return ex.callFunction(fn, full)
		}
	}
	ex.unmodelled("no method " + name + " on " + iv.T.String())
	return nil
}
