package main

// SMT terms with constant folding. Sorts: Bool, BitVec(w), Int.
// A TermFactory is owned by one worker (no locking); terms never cross workers.

import (
	"fmt"
	"math/big"
	"strconv"
	"strings"
)

type SortKind int

const (
	SBool SortKind = iota
	SBV
	SInt
)

type Sort struct {
	K SortKind
	W int
}

func (s Sort) String() string {
	switch s.K {
	case SBool:
		return "Bool"
	case SBV:
		return fmt.Sprintf("(_ BitVec %d)", s.W)
	}
	return "Int"
}

var BoolSort = Sort{K: SBool}
var IntSort = Sort{K: SInt}

func BVSort(w int) Sort { return Sort{K: SBV, W: w} }

type Term struct {
	Sort Sort
	Op   string // "const", "var", or SMT operator text
	Args []*Term
	C    *big.Int // const payload (BV: unsigned value; Int: value; Bool: 0/1)
	Name string   // var name
	P1   int      // params (extract hi / ext amount)
	P2   int      // extract lo
	ID   int
}

func (t *Term) IsConst() bool { return t.Op == "const" }
func (t *Term) IsTrue() bool  { return t.Sort.K == SBool && t.Op == "const" && t.C.Sign() != 0 }
func (t *Term) IsFalse() bool { return t.Sort.K == SBool && t.Op == "const" && t.C.Sign() == 0 }

type TermFactory struct {
	next   int
	intern map[string]*Term
	T, F   *Term
	bytes  [256]*Term
}

func NewTermFactory() *TermFactory {
	f := &TermFactory{intern: map[string]*Term{}}
	f.T = f.mk(&Term{Sort: BoolSort, Op: "const", C: big.NewInt(1)})
	f.F = f.mk(&Term{Sort: BoolSort, Op: "const", C: big.NewInt(0)})
	return f
}

func (f *TermFactory) key(t *Term) string {
	b := make([]byte, 0, 48)
	b = append(b, t.Op...)
	b = append(b, '|', byte('0'+t.Sort.K))
	b = strconv.AppendInt(b, int64(t.Sort.W), 10)
	if t.C != nil {
		b = append(b, '|')
		if t.C.IsUint64() {
			b = strconv.AppendUint(b, t.C.Uint64(), 16)
		} else {
			b = append(b, 'x')
			b = t.C.Append(b, 16)
		}
	}
	if t.Name != "" {
		b = append(b, '|')
		b = append(b, t.Name...)
	}
	if t.P1 != 0 || t.P2 != 0 {
		b = append(b, '|')
		b = strconv.AppendInt(b, int64(t.P1), 10)
		b = append(b, ',')
		b = strconv.AppendInt(b, int64(t.P2), 10)
	}
	for _, a := range t.Args {
		b = append(b, ' ')
		b = strconv.AppendInt(b, int64(a.ID), 10)
	}
	return string(b)
}

func (f *TermFactory) mk(t *Term) *Term {
	k := f.key(t)
	if e, ok := f.intern[k]; ok {
		return e
	}
	f.next++
	t.ID = f.next
	f.intern[k] = t
	return t
}

func (f *TermFactory) Bool(b bool) *Term {
	if b {
		return f.T
	}
	return f.F
}

var one = big.NewInt(1)

func mask(w int) *big.Int {
	m := new(big.Int).Lsh(one, uint(w))
	return m.Sub(m, one)
}

func (f *TermFactory) BVConst(v *big.Int, w int) *Term {
	x := new(big.Int).And(v, mask(w)) // big.Int And on negative uses two's complement semantics
	return f.mk(&Term{Sort: BVSort(w), Op: "const", C: x})
}
func (f *TermFactory) BVu(v uint64, w int) *Term {
	if w == 8 && v < 256 {
		if t := f.bytes[v]; t != nil {
			return t
		}
		t := f.BVConst(new(big.Int).SetUint64(v), w)
		f.bytes[v] = t
		return t
	}
	return f.BVConst(new(big.Int).SetUint64(v), w)
}
func (f *TermFactory) BVi(v int64, w int) *Term { return f.BVConst(big.NewInt(v), w) }
func (f *TermFactory) IntConst(v *big.Int) *Term {
	return f.mk(&Term{Sort: IntSort, Op: "const", C: new(big.Int).Set(v)})
}
func (f *TermFactory) Inti(v int64) *Term { return f.IntConst(big.NewInt(v)) }
func (f *TermFactory) Var(name string, s Sort) *Term {
	return f.mk(&Term{Sort: s, Op: "var", Name: name})
}

// signed interpretation of a BV constant
func signedOf(c *big.Int, w int) *big.Int {
	if c.Bit(w-1) == 1 {
		return new(big.Int).Sub(c, new(big.Int).Lsh(one, uint(w)))
	}
	return new(big.Int).Set(c)
}

func (f *TermFactory) Not(a *Term) *Term {
	if a.IsConst() {
		return f.Bool(a.C.Sign() == 0)
	}
	if a.Op == "not" {
		return a.Args[0]
	}
	return f.mk(&Term{Sort: BoolSort, Op: "not", Args: []*Term{a}})
}

func (f *TermFactory) And(as ...*Term) *Term {
	var out []*Term
	for _, a := range as {
		if a.IsFalse() {
			return f.F
		}
		if a.IsTrue() {
			continue
		}
		dup := false
		for _, o := range out {
			if o == a {
				dup = true
			}
		}
		if !dup {
			out = append(out, a)
		}
	}
	if len(out) == 0 {
		return f.T
	}
	if len(out) == 1 {
		return out[0]
	}
	return f.mk(&Term{Sort: BoolSort, Op: "and", Args: out})
}

func (f *TermFactory) Or(as ...*Term) *Term {
	var out []*Term
	for _, a := range as {
		if a.IsTrue() {
			return f.T
		}
		if a.IsFalse() {
			continue
		}
		dup := false
		for _, o := range out {
			if o == a {
				dup = true
			}
		}
		if !dup {
			out = append(out, a)
		}
	}
	if len(out) == 0 {
		return f.F
	}
	if len(out) == 1 {
		return out[0]
	}
	return f.mk(&Term{Sort: BoolSort, Op: "or", Args: out})
}

func (f *TermFactory) Implies(a, b *Term) *Term { return f.Or(f.Not(a), b) }

func (f *TermFactory) Ite(c, a, b *Term) *Term {
	if c.IsTrue() {
		return a
	}
	if c.IsFalse() {
		return b
	}
	if a == b {
		return a
	}
	if a.Sort.K == SBool {
		if a.IsTrue() && b.IsFalse() {
			return c
		}
		if a.IsFalse() && b.IsTrue() {
			return f.Not(c)
		}
	}
	return f.mk(&Term{Sort: a.Sort, Op: "ite", Args: []*Term{c, a, b}})
}

func (f *TermFactory) Eq(a, b *Term) *Term {
	if a.Sort != b.Sort {
		panic(fmt.Sprintf("Eq sort mismatch %v %v", a.Sort, b.Sort))
	}
	if a == b {
		return f.T
	}
	if a.IsConst() && b.IsConst() {
		return f.Bool(a.C.Cmp(b.C) == 0)
	}
	if a.Sort.K == SBool {
		if a.IsConst() {
			if a.IsTrue() {
				return b
			}
			return f.Not(b)
		}
		if b.IsConst() {
			if b.IsTrue() {
				return a
			}
			return f.Not(a)
		}
	}
	if a.ID > b.ID {
		a, b = b, a
	}
	return f.mk(&Term{Sort: BoolSort, Op: "=", Args: []*Term{a, b}})
}

// ---------- bit-vectors ----------

func (f *TermFactory) bvbin(op string, a, b *Term) *Term {
	if a.Sort != b.Sort || a.Sort.K != SBV {
		panic(fmt.Sprintf("bv op %s sort mismatch %v %v", op, a.Sort, b.Sort))
	}
	w := a.Sort.W
	if a.IsConst() && b.IsConst() {
		x, y := a.C, b.C
		r := new(big.Int)
		switch op {
		case "bvadd":
			return f.BVConst(r.Add(x, y), w)
		case "bvsub":
			return f.BVConst(r.Sub(x, y), w)
		case "bvmul":
			return f.BVConst(r.Mul(x, y), w)
		case "bvand":
			return f.BVConst(r.And(x, y), w)
		case "bvor":
			return f.BVConst(r.Or(x, y), w)
		case "bvxor":
			return f.BVConst(r.Xor(x, y), w)
		case "bvudiv":
			if y.Sign() != 0 {
				return f.BVConst(r.Quo(x, y), w)
			}
		case "bvurem":
			if y.Sign() != 0 {
				return f.BVConst(r.Rem(x, y), w)
			}
		case "bvsdiv":
			if y.Sign() != 0 {
				return f.BVConst(r.Quo(signedOf(x, w), signedOf(y, w)), w)
			}
		case "bvsrem":
			if y.Sign() != 0 {
				return f.BVConst(r.Rem(signedOf(x, w), signedOf(y, w)), w)
			}
		case "bvshl":
			if y.Cmp(big.NewInt(int64(w))) >= 0 {
				return f.BVu(0, w)
			}
			return f.BVConst(r.Lsh(x, uint(y.Uint64())), w)
		case "bvlshr":
			if y.Cmp(big.NewInt(int64(w))) >= 0 {
				return f.BVu(0, w)
			}
			return f.BVConst(r.Rsh(x, uint(y.Uint64())), w)
		case "bvashr":
			sx := signedOf(x, w)
			if y.Cmp(big.NewInt(int64(w))) >= 0 {
				if sx.Sign() < 0 {
					return f.BVConst(big.NewInt(-1), w)
				}
				return f.BVu(0, w)
			}
			return f.BVConst(r.Rsh(sx, uint(y.Uint64())), w)
		}
	}
	// identities
	switch op {
	case "bvadd", "bvor", "bvxor":
		if a.IsConst() && a.C.Sign() == 0 {
			return b
		}
		if b.IsConst() && b.C.Sign() == 0 {
			return a
		}
	case "bvsub", "bvshl", "bvlshr", "bvashr":
		if b.IsConst() && b.C.Sign() == 0 {
			return a
		}
	case "bvmul":
		if a.IsConst() && a.C.Cmp(one) == 0 {
			return b
		}
		if b.IsConst() && b.C.Cmp(one) == 0 {
			return a
		}
		if (a.IsConst() && a.C.Sign() == 0) || (b.IsConst() && b.C.Sign() == 0) {
			return f.BVu(0, w)
		}
	case "bvand":
		if (a.IsConst() && a.C.Sign() == 0) || (b.IsConst() && b.C.Sign() == 0) {
			return f.BVu(0, w)
		}
		if a.IsConst() && a.C.Cmp(mask(w)) == 0 {
			return b
		}
		if b.IsConst() && b.C.Cmp(mask(w)) == 0 {
			return a
		}
	}
	return f.mk(&Term{Sort: a.Sort, Op: op, Args: []*Term{a, b}})
}

func (f *TermFactory) BVAdd(a, b *Term) *Term  { return f.bvbin("bvadd", a, b) }
func (f *TermFactory) BVSub(a, b *Term) *Term  { return f.bvbin("bvsub", a, b) }
func (f *TermFactory) BVMul(a, b *Term) *Term  { return f.bvbin("bvmul", a, b) }
func (f *TermFactory) BVAnd(a, b *Term) *Term  { return f.bvbin("bvand", a, b) }
func (f *TermFactory) BVOr(a, b *Term) *Term   { return f.bvbin("bvor", a, b) }
func (f *TermFactory) BVXor(a, b *Term) *Term  { return f.bvbin("bvxor", a, b) }
func (f *TermFactory) BVUDiv(a, b *Term) *Term { return f.bvbin("bvudiv", a, b) }
func (f *TermFactory) BVSDiv(a, b *Term) *Term { return f.bvbin("bvsdiv", a, b) }
func (f *TermFactory) BVURem(a, b *Term) *Term { return f.bvbin("bvurem", a, b) }
func (f *TermFactory) BVSRem(a, b *Term) *Term { return f.bvbin("bvsrem", a, b) }
func (f *TermFactory) BVShl(a, b *Term) *Term  { return f.bvbin("bvshl", a, b) }
func (f *TermFactory) BVLshr(a, b *Term) *Term { return f.bvbin("bvlshr", a, b) }
func (f *TermFactory) BVAshr(a, b *Term) *Term { return f.bvbin("bvashr", a, b) }

func (f *TermFactory) BVNot(a *Term) *Term {
	if a.IsConst() {
		return f.BVConst(new(big.Int).Xor(a.C, mask(a.Sort.W)), a.Sort.W)
	}
	return f.mk(&Term{Sort: a.Sort, Op: "bvnot", Args: []*Term{a}})
}
func (f *TermFactory) BVNeg(a *Term) *Term {
	if a.IsConst() {
		return f.BVConst(new(big.Int).Neg(a.C), a.Sort.W)
	}
	return f.mk(&Term{Sort: a.Sort, Op: "bvneg", Args: []*Term{a}})
}

func (f *TermFactory) bvcmp(op string, a, b *Term) *Term {
	if a.Sort != b.Sort || a.Sort.K != SBV {
		panic(fmt.Sprintf("bv cmp %s sort mismatch %v %v", op, a.Sort, b.Sort))
	}
	w := a.Sort.W
	if a.IsConst() && b.IsConst() {
		switch op {
		case "bvult":
			return f.Bool(a.C.Cmp(b.C) < 0)
		case "bvule":
			return f.Bool(a.C.Cmp(b.C) <= 0)
		case "bvslt":
			return f.Bool(signedOf(a.C, w).Cmp(signedOf(b.C, w)) < 0)
		case "bvsle":
			return f.Bool(signedOf(a.C, w).Cmp(signedOf(b.C, w)) <= 0)
		}
	}
	if a == b {
		return f.Bool(op == "bvule" || op == "bvsle")
	}
	return f.mk(&Term{Sort: BoolSort, Op: op, Args: []*Term{a, b}})
}
func (f *TermFactory) BVUlt(a, b *Term) *Term { return f.bvcmp("bvult", a, b) }
func (f *TermFactory) BVUle(a, b *Term) *Term { return f.bvcmp("bvule", a, b) }
func (f *TermFactory) BVSlt(a, b *Term) *Term { return f.bvcmp("bvslt", a, b) }
func (f *TermFactory) BVSle(a, b *Term) *Term { return f.bvcmp("bvsle", a, b) }

func (f *TermFactory) Extract(hi, lo int, a *Term) *Term {
	if hi == a.Sort.W-1 && lo == 0 {
		return a
	}
	if a.IsConst() {
		v := new(big.Int).Rsh(a.C, uint(lo))
		return f.BVConst(v, hi-lo+1)
	}
	return f.mk(&Term{Sort: BVSort(hi - lo + 1), Op: "extract", Args: []*Term{a}, P1: hi, P2: lo})
}
func (f *TermFactory) ZExt(a *Term, to int) *Term {
	if to == a.Sort.W {
		return a
	}
	if a.IsConst() {
		return f.BVConst(a.C, to)
	}
	return f.mk(&Term{Sort: BVSort(to), Op: "zero_extend", Args: []*Term{a}, P1: to - a.Sort.W})
}
func (f *TermFactory) SExt(a *Term, to int) *Term {
	if to == a.Sort.W {
		return a
	}
	if a.IsConst() {
		return f.BVConst(signedOf(a.C, a.Sort.W), to)
	}
	return f.mk(&Term{Sort: BVSort(to), Op: "sign_extend", Args: []*Term{a}, P1: to - a.Sort.W})
}
func (f *TermFactory) Concat(a, b *Term) *Term {
	if a.IsConst() && b.IsConst() {
		v := new(big.Int).Lsh(a.C, uint(b.Sort.W))
		v.Or(v, b.C)
		return f.BVConst(v, a.Sort.W+b.Sort.W)
	}
	return f.mk(&Term{Sort: BVSort(a.Sort.W + b.Sort.W), Op: "concat", Args: []*Term{a, b}})
}

// Resize converts a BV to width `to`, sign- or zero-extending according to srcSigned.
func (f *TermFactory) Resize(a *Term, to int, srcSigned bool) *Term {
	w := a.Sort.W
	if to == w {
		return a
	}
	if to < w {
		return f.Extract(to-1, 0, a)
	}
	if srcSigned {
		return f.SExt(a, to)
	}
	return f.ZExt(a, to)
}

// ---------- integers ----------

func (f *TermFactory) intn(op string, as ...*Term) *Term {
	for _, a := range as {
		if a.Sort.K != SInt {
			panic("int op on non-int " + op + " " + a.Sort.String())
		}
	}
	return f.mk(&Term{Sort: IntSort, Op: op, Args: as})
}

func (f *TermFactory) IAdd(a, b *Term) *Term {
	if a.IsConst() && b.IsConst() {
		return f.IntConst(new(big.Int).Add(a.C, b.C))
	}
	if a.IsConst() && a.C.Sign() == 0 {
		return b
	}
	if b.IsConst() && b.C.Sign() == 0 {
		return a
	}
	if a.ID > b.ID { // canonical order: addition is commutative
		a, b = b, a
	}
	return f.intn("+", a, b)
}
func (f *TermFactory) ISub(a, b *Term) *Term {
	if a.IsConst() && b.IsConst() {
		return f.IntConst(new(big.Int).Sub(a.C, b.C))
	}
	if b.IsConst() && b.C.Sign() == 0 {
		return a
	}
	if a == b {
		return f.Inti(0)
	}
	return f.intn("-", a, b)
}
func (f *TermFactory) IMul(a, b *Term) *Term {
	if a.IsConst() && b.IsConst() {
		return f.IntConst(new(big.Int).Mul(a.C, b.C))
	}
	if a.IsConst() {
		if a.C.Sign() == 0 {
			return a
		}
		if a.C.Cmp(one) == 0 {
			return b
		}
	}
	if b.IsConst() {
		if b.C.Sign() == 0 {
			return b
		}
		if b.C.Cmp(one) == 0 {
			return a
		}
	}
	if a.ID > b.ID { // canonical order: multiplication is commutative
		a, b = b, a
	}
	return f.intn("*", a, b)
}
func (f *TermFactory) INeg(a *Term) *Term {
	if a.IsConst() {
		return f.IntConst(new(big.Int).Neg(a.C))
	}
	return f.intn("-", a)
}
func (f *TermFactory) IAbs(a *Term) *Term {
	if a.IsConst() {
		return f.IntConst(new(big.Int).Abs(a.C))
	}
	return f.Ite(f.ILt(a, f.Inti(0)), f.INeg(a), a)
}
func (f *TermFactory) ILe(a, b *Term) *Term {
	if a.IsConst() && b.IsConst() {
		return f.Bool(a.C.Cmp(b.C) <= 0)
	}
	if a == b {
		return f.T
	}
	return f.mk(&Term{Sort: BoolSort, Op: "<=", Args: []*Term{a, b}})
}
func (f *TermFactory) ILt(a, b *Term) *Term {
	if a.IsConst() && b.IsConst() {
		return f.Bool(a.C.Cmp(b.C) < 0)
	}
	if a == b {
		return f.F
	}
	return f.mk(&Term{Sort: BoolSort, Op: "<", Args: []*Term{a, b}})
}
func (f *TermFactory) IGe(a, b *Term) *Term { return f.ILe(b, a) }
func (f *TermFactory) IGt(a, b *Term) *Term { return f.ILt(b, a) }

// EDiv/EMod: SMT-LIB euclidean div/mod (only used with non-zero constant divisors)
func (f *TermFactory) EDiv(a, b *Term) *Term {
	if a.IsConst() && b.IsConst() && b.C.Sign() != 0 {
		q, _ := new(big.Int).DivMod(a.C, b.C, new(big.Int))
		return f.IntConst(q)
	}
	return f.intn("div", a, b)
}
func (f *TermFactory) EMod(a, b *Term) *Term {
	if a.IsConst() && b.IsConst() && b.C.Sign() != 0 {
		_, m := new(big.Int).DivMod(a.C, b.C, new(big.Int))
		return f.IntConst(m)
	}
	return f.intn("mod", a, b)
}

// BV2Int: unsigned or signed value of a bit-vector as Int
func (f *TermFactory) BV2Int(a *Term, signed bool) *Term {
	w := a.Sort.W
	if a.IsConst() {
		if signed {
			return f.IntConst(signedOf(a.C, w))
		}
		return f.IntConst(a.C)
	}
	u := f.mk(&Term{Sort: IntSort, Op: "bv2nat", Args: []*Term{a}})
	if !signed {
		return u
	}
	half := new(big.Int).Lsh(one, uint(w-1))
	full := new(big.Int).Lsh(one, uint(w))
	return f.Ite(f.ILt(u, f.IntConst(half)), u, f.ISub(u, f.IntConst(full)))
}

// Int2BV: value mod 2^w
func (f *TermFactory) Int2BV(a *Term, w int) *Term {
	if a.IsConst() {
		return f.BVConst(a.C, w)
	}
	if a.Op == "bv2nat" && a.Args[0].Sort.W == w {
		return a.Args[0]
	}
	return f.mk(&Term{Sort: BVSort(w), Op: "int2bv", Args: []*Term{a}, P1: w})
}

// ---------- rendering ----------

func constLit(t *Term) string {
	switch t.Sort.K {
	case SBool:
		if t.C.Sign() != 0 {
			return "true"
		}
		return "false"
	case SBV:
		if t.Sort.W%4 == 0 {
			return fmt.Sprintf("#x%0*s", t.Sort.W/4, t.C.Text(16))
		}
		return fmt.Sprintf("#b%0*s", t.Sort.W, t.C.Text(2))
	default:
		if t.C.Sign() < 0 {
			return "(- " + new(big.Int).Neg(t.C).String() + ")"
		}
		return t.C.String()
	}
}

func smtName(n string) string { return "|" + n + "|" }

// ref returns how a term is referred to inside another term's definition.
func ref(t *Term) string {
	switch t.Op {
	case "const":
		return constLit(t)
	case "var":
		return smtName(t.Name)
	}
	return fmt.Sprintf("t%d", t.ID)
}

// body renders the defining expression of a non-leaf term using refs for its args.
func body(t *Term) string {
	var sb strings.Builder
	switch t.Op {
	case "extract":
		fmt.Fprintf(&sb, "((_ extract %d %d)", t.P1, t.P2)
	case "zero_extend", "sign_extend":
		fmt.Fprintf(&sb, "((_ %s %d)", t.Op, t.P1)
	case "int2bv":
		fmt.Fprintf(&sb, "((_ int2bv %d)", t.P1)
	default:
		sb.WriteString("(" + t.Op)
	}
	for _, a := range t.Args {
		sb.WriteByte(' ')
		sb.WriteString(ref(a))
	}
	sb.WriteByte(')')
	return sb.String()
}

// Pretty prints a term fully (for samples / debugging), bounded in size.
func (t *Term) Pretty(limit int) string {
	var sb strings.Builder
	var rec func(t *Term)
	rec = func(t *Term) {
		if sb.Len() > limit {
			return
		}
		switch t.Op {
		case "const":
			sb.WriteString(constLit(t))
		case "var":
			sb.WriteString(t.Name)
		default:
			sb.WriteString("(" + t.Op)
			for _, a := range t.Args {
				sb.WriteByte(' ')
				rec(a)
			}
			sb.WriteByte(')')
		}
	}
	rec(t)
	s := sb.String()
	if len(s) > limit {
		s = s[:limit] + "..."
	}
	return s
}
