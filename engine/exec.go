package main

// Path-replay symbolic execution: every path is executed from the harness entry; a path is
// identified by its decision log. New alternatives found at symbolic branches are pushed to a
// shared worklist as prefixes.

import (
	"fmt"
	"go/token"
	"math/big"
	"sort"
	"strings"
	"time"

	"golang.org/x/tools/go/ssa"
)

type Decision struct {
	Kind byte // 'b' branch, 'a' assert, 's' assume
	Val  int
}

type InputDecl struct {
	Name string
	Kind string // "int" (math int), "bv64", "bv32", "bv8", "bool", "dec"
	T    *Term
}

type Violation struct {
	Harness string            `json:"harness"`
	Label   string            `json:"label"`
	Kind    string            `json:"kind"` // "assert" | "panic"
	Pos     string            `json:"pos"`
	Model   map[string]string `json:"model"`
	Known   string            `json:"known,omitempty"`
	Trace   []string          `json:"trace,omitempty"`
}

// control-flow signals (Go panics used internally)
type goPanicSig struct {
	msg string
	val Val
	pos string
}
type pathEndSig struct{ reason string }
type unmodelledSig struct{ what string }
type engineErr string

type PendingAlt struct {
	Log   []Decision
	Model map[string]string
}

type PathResult struct {
	Harness     string
	End         string // "completed" | "infeasible" | "panic" | "unmodelled" | "unwind" | "engine-error" | "violation-end"
	Detail      string
	Pending     []PendingAlt
	FeasUnknown int
	Violations  []Violation
	Inconcl     []string
	Reached     map[string]int
	Discharged  int
	Obligations int
	Instrs      int
	Witness     map[string]string
	Covers      map[string]bool
	PCSample    string
	Intrinsics  map[string]int
	Funcs       map[string]bool
}

type Exec struct {
	w       *World
	wk      *Worker
	tf      *TermFactory
	solver  *Solver
	harness *Harness

	pc      []*Term
	log     []Decision
	pos     int
	newLog  []Decision
	res     *PathResult
	inputs  []InputDecl
	inNames map[string]int
	fresh   int
	cellSeq int

	globals  map[*ssa.Global]*Cell
	initDone map[*ssa.Package]bool
	initing  bool

	depth        int
	instrs       int
	maxInstrs    int
	unwind       int
	mapOrder     string
	frames       []*Frame
	curPanic     *goPanicSig
	recoverOwner []*Frame
	known        map[string]bool
	env          *EnvState
	hashMemo     map[string][]*Term
	hashSeq      int
	blsPK        []*Term
	blsSigs      map[string][]*Term
	freshDefs    map[string]FreshDef
	varBounds    map[string]ivl
	boundMemo    map[int]ivl
	extraBounds  map[int]ivl
	divMemo      map[[2]int][2]*Term
	edivMemo     map[[2]int][2]*Term
	model        *Model
	deadline     time.Time
	wantWit      bool
}

func (ex *Exec) unmodelled(what string) {
	panic(unmodelledSig{what})
}

func (ex *Exec) goPanic(msg string) {
	panic(&goPanicSig{msg: msg, pos: ex.curPos()})
}

func (ex *Exec) endPath(reason string) {
	panic(pathEndSig{reason})
}

func (ex *Exec) curPos() string {
	for i := len(ex.frames) - 1; i >= 0; i-- {
		fr := ex.frames[i]
		if fr.cur != nil && fr.cur.Pos() != token.NoPos {
			p := ex.w.prog.Fset.Position(fr.cur.Pos())
			return fmt.Sprintf("%s:%d", shortFile(p.Filename), p.Line)
		}
	}
	if len(ex.frames) > 0 {
		return ex.frames[len(ex.frames)-1].fn.String()
	}
	return "?"
}

func shortFile(f string) string {
	f = strings.TrimPrefix(f, repoRoot+"/")
	return f
}

func (ex *Exec) stackTrace() []string {
	var out []string
	for i := len(ex.frames) - 1; i >= 0 && len(out) < 12; i-- {
		fr := ex.frames[i]
		pos := ""
		if fr.cur != nil && fr.cur.Pos() != token.NoPos {
			p := ex.w.prog.Fset.Position(fr.cur.Pos())
			pos = fmt.Sprintf(" %s:%d", shortFile(p.Filename), p.Line)
		}
		out = append(out, fr.fn.String()+pos)
	}
	return out
}

func (ex *Exec) addPC(c *Term) {
	if c.IsTrue() {
		return
	}
	ex.pc = append(ex.pc, c)
	ex.solver.Assert(c)
	ex.noteBoundsFrom(c)
}

// side constraint that is always satisfiable (definitional axiom for a fresh variable)
func (ex *Exec) axiom(c *Term) {
	if c.IsTrue() {
		return
	}
	ex.solver.Assert(c)
	ex.noteBoundsFrom(c)
}

func (ex *Exec) freshVar(prefix string, s Sort) *Term {
	ex.fresh++
	return ex.tf.Var(fmt.Sprintf("%s!%d", prefix, ex.fresh), s)
}

// setModel stores a solver model (name -> decimal / true / false) as the current witness of PC.
func (ex *Exec) setModel(m map[string]string) {
	if m == nil {
		ex.model = nil
		return
	}
	mv := &Model{V: map[string]*big.Int{}}
	for k, v := range m {
		name := strings.Trim(k, "|")
		switch v {
		case "true":
			mv.V[name] = big.NewInt(1)
		case "false":
			mv.V[name] = big.NewInt(0)
		default:
			if bi, ok := new(big.Int).SetString(v, 10); ok {
				mv.V[name] = bi
			}
		}
	}
	ex.model = mv
}

// modelSays evaluates c under the current model: (value, known)
func (ex *Exec) modelSays(c *Term) (bool, bool) {
	if ex.model == nil {
		return false, false
	}
	v, ok := ex.evalTerm(c, ex.model)
	if !ok {
		return false, false
	}
	return v.Sign() != 0, true
}

var allVars = []*Term{}

// Branch decides a boolean condition, forking when both sides are feasible.
func (ex *Exec) Branch(c *Term) bool {
	if c.IsConst() {
		return c.IsTrue()
	}
	if ex.initing {
		ex.unmodelled("symbolic branch during package init")
	}
	if ex.pos < len(ex.log) {
		d := ex.log[ex.pos]
		ex.pos++
		if d.Kind != 'b' {
			panic(engineErr(fmt.Sprintf("replay divergence: expected %c got branch at %s", d.Kind, ex.curPos())))
		}
		ex.newLog = append(ex.newLog, d)
		cc := c
		if d.Val != 1 {
			cc = ex.tf.Not(c)
		}
		ex.addPC(cc)
		if ex.model != nil {
			if v, known := ex.modelSays(cc); !known || !v {
				ex.model = nil
			}
		}
		return d.Val == 1
	}
	ex.checkDeadline()
	nc := ex.tf.Not(c)
	mv, known := ex.modelSays(c)
	var rT, rF SatResult
	var mT, mF map[string]string
	if known && mv {
		rT = RSat
		rF, mF = ex.solver.CheckFeas([]*Term{nc}, allVars)
	} else if known && !mv {
		rF = RSat
		rT, mT = ex.solver.CheckFeas([]*Term{c}, allVars)
	} else {
		rT, mT = ex.solver.CheckFeas([]*Term{c}, allVars)
		if rT == RUnsat {
			ex.newLog = append(ex.newLog, Decision{'b', 0})
			ex.addPC(nc)
			return false
		}
		rF, mF = ex.solver.CheckFeas([]*Term{nc}, allVars)
	}
	if rT == RUnsat {
		ex.newLog = append(ex.newLog, Decision{'b', 0})
		ex.addPC(nc)
		if mF != nil {
			ex.setModel(mF)
		}
		return false
	}
	if rF == RUnsat {
		ex.newLog = append(ex.newLog, Decision{'b', 1})
		ex.addPC(c)
		if mT != nil {
			ex.setModel(mT)
		}
		return true
	}
	if rT == RUnknown || rF == RUnknown {
		// both sides are explored (over-approximation); a violation still needs a sat model
		ex.res.FeasUnknown++
	}
	alt := make([]Decision, len(ex.newLog)+1)
	copy(alt, ex.newLog)
	alt[len(ex.newLog)] = Decision{'b', 0}
	// the model of the false side travels with the alternative
	var altModel map[string]string
	if mF != nil {
		altModel = mF
	} else if known && !mv && ex.model != nil {
		altModel = ex.modelStrings()
	}
	ex.res.Pending = append(ex.res.Pending, PendingAlt{Log: alt, Model: altModel})
	ex.newLog = append(ex.newLog, Decision{'b', 1})
	ex.addPC(c)
	if mT != nil {
		ex.setModel(mT)
	} else if !(known && mv) {
		ex.model = nil
	}
	return true
}

func (ex *Exec) modelStrings() map[string]string {
	out := map[string]string{}
	for k, v := range ex.model.V {
		out[smtName(k)] = v.String()
	}
	return out
}

func (ex *Exec) checkDeadline() {
	if !ex.deadline.IsZero() && time.Now().After(ex.deadline) {
		ex.endPath("timeout")
	}
}

func (ex *Exec) noteInconcl(s string) {
	for _, x := range ex.res.Inconcl {
		if x == s {
			return
		}
	}
	ex.res.Inconcl = append(ex.res.Inconcl, s)
}

func (ex *Exec) Assume(c *Term) {
	if c.IsTrue() {
		return
	}
	if c.IsFalse() {
		ex.endPath("infeasible")
	}
	if ex.pos < len(ex.log) {
		d := ex.log[ex.pos]
		ex.pos++
		if d.Kind != 's' {
			panic(engineErr("replay divergence at assume"))
		}
		ex.newLog = append(ex.newLog, d)
		ex.addPC(c)
		if ex.model != nil {
			if v, known := ex.modelSays(c); !known || !v {
				ex.model = nil
			}
		}
		return
	}
	if v, known := ex.modelSays(c); known && v {
		ex.newLog = append(ex.newLog, Decision{'s', 1})
		ex.addPC(c)
		return
	}
	r, m := ex.solver.Check([]*Term{c}, allVars)
	if r == RUnsat {
		ex.endPath("infeasible")
	}
	if r == RUnknown {
		ex.noteInconcl("assume feasibility unknown at " + ex.curPos())
	}
	ex.newLog = append(ex.newLog, Decision{'s', 1})
	ex.addPC(c)
	ex.setModel(m)
}

func (ex *Exec) inputTerms() []*Term {
	ts := make([]*Term, len(ex.inputs))
	for i, in := range ex.inputs {
		ts[i] = in.T
	}
	return ts
}

func (ex *Exec) modelToInputs(m map[string]string) map[string]string {
	out := map[string]string{}
	for _, in := range ex.inputs {
		if v, ok := m[smtName(in.Name)]; ok {
			out[in.Name] = v
		}
	}
	return out
}

func (ex *Exec) Assert(c *Term, label string) {
	ex.res.Reached[label]++
	if ex.pos < len(ex.log) {
		d := ex.log[ex.pos]
		ex.pos++
		if d.Kind != 'a' {
			panic(engineErr("replay divergence at assert"))
		}
		ex.newLog = append(ex.newLog, d)
		ex.addPC(c)
		if ex.model != nil {
			if v, known := ex.modelSays(c); !known || !v {
				ex.model = nil
			}
		}
		return
	}
	ex.res.Obligations++
	if c.IsTrue() {
		ex.res.Discharged++
		ex.newLog = append(ex.newLog, Decision{'a', 1})
		return
	}
	ex.checkDeadline()
	r, model := ex.solver.Check([]*Term{ex.tf.Not(c)}, allVars)
	switch r {
	case RUnsat:
		ex.res.Discharged++
		ex.newLog = append(ex.newLog, Decision{'a', 1})
		// c is implied by the path condition; keep it as a lemma for later queries
		ex.addPC(c)
	case RSat:
		ex.res.Violations = append(ex.res.Violations, Violation{
			Harness: ex.harness.Name, Label: label, Kind: "assert", Pos: ex.curPos(),
			Model: ex.modelToInputs(model), Trace: ex.stackTrace(),
		})
		ex.newLog = append(ex.newLog, Decision{'a', 0})
		// continue under the assumption that it held, if possible
		r2, m2 := ex.solver.Check([]*Term{c}, allVars)
		if r2 == RUnsat {
			ex.endPath("violation-end")
		}
		ex.addPC(c)
		ex.setModel(m2)
	default:
		ex.noteInconcl(fmt.Sprintf("assert %q: solver %s (%s)", label, r, ex.solver.LastError))
		ex.newLog = append(ex.newLog, Decision{'a', 1})
		ex.addPC(c)
	}
}

// reportPanic is called when an interpreted panic escapes the harness.
func (ex *Exec) reportPanic(p *goPanicSig) {
	label := "panic: " + p.msg
	r, model := ex.solver.Check(nil, allVars)
	if r == RUnsat {
		return
	}
	if r == RUnknown {
		ex.noteInconcl("panic path feasibility unknown: " + p.msg + " at " + p.pos)
		return
	}
	ex.res.Violations = append(ex.res.Violations, Violation{
		Harness: ex.harness.Name, Label: label, Kind: "panic", Pos: p.pos,
		Model: ex.modelToInputs(model),
	})
}

// ---------- running one path ----------

func (w *World) RunPath(wk *Worker, h *Harness, prefix []Decision, startModel map[string]string) (res *PathResult) {
	tf := wk.tf
	tf.intern = map[string]*Term{}
	tf.bytes = [256]*Term{}
	tf.intern[tf.key(tf.T)] = tf.T
	tf.intern[tf.key(tf.F)] = tf.F
	wk.solver.Reset()
	ex := &Exec{
		w: w, wk: wk, tf: tf, solver: wk.solver, harness: h,
		log: prefix, inNames: map[string]int{}, freshDefs: map[string]FreshDef{}, varBounds: map[string]ivl{}, boundMemo: map[int]ivl{}, extraBounds: map[int]ivl{}, divMemo: map[[2]int][2]*Term{}, edivMemo: map[[2]int][2]*Term{},
		globals: map[*ssa.Global]*Cell{}, initDone: map[*ssa.Package]bool{},
		maxInstrs: h.MaxInstrs, unwind: h.Unwind, mapOrder: "insertion",
		known: w.known,
	}
	if h.PathTimeout > 0 {
		ex.deadline = time.Now().Add(h.PathTimeout)
	}
	res = &PathResult{Harness: h.Name, Reached: map[string]int{}, Covers: map[string]bool{}, Intrinsics: map[string]int{}, Funcs: map[string]bool{}}
	ex.res = res
	ex.env = newEnvState(ex)
	ex.setModel(startModel)
	defer func() {
		res.Instrs = ex.instrs
		if r := recover(); r != nil {
			switch sig := r.(type) {
			case *goPanicSig:
				res.End = "panic"
				res.Detail = sig.msg + " at " + sig.pos
				ex.reportPanic(sig)
			case pathEndSig:
				res.End = sig.reason
			case unmodelledSig:
				res.End = "unmodelled"
				res.Detail = sig.what + " at " + ex.curPos()
			case engineErr:
				res.End = "engine-error"
				res.Detail = string(sig) + " at " + ex.curPos() + " | " + strings.Join(ex.stackTrace(), " <- ")
			default:
				res.End = "engine-error"
				res.Detail = fmt.Sprintf("%v at %s | %s", r, ex.curPos(), strings.Join(ex.stackTrace(), " <- "))
				if w.debug {
					panic(r)
				}
			}
		}
		if res.End == "unmodelled" || res.End == "engine-error" || res.End == "unwind" || res.End == "timeout" || res.End == "instr-budget" {
			res.Inconcl = append(res.Inconcl, res.End+": "+res.Detail)
		}
	}()
	ex.callFunction(h.Fn, nil)
	res.End = "completed"
	// witness for vacuity + sample
	if wk.needWitness(h.Name) {
		r, m := ex.solver.Check(nil, allVars)
		if r == RSat {
			res.Witness = ex.modelToInputs(m)
			var pcs []string
			for i, c := range ex.pc {
				if i >= 6 {
					pcs = append(pcs, fmt.Sprintf("... (%d conjuncts)", len(ex.pc)))
					break
				}
				pcs = append(pcs, c.Pretty(160))
			}
			res.PCSample = strings.Join(pcs, " ∧ ")
			wk.gotWitness(h.Name)
		}
	}
	return res
}

func sortedKeys[V any](m map[string]V) []string {
	ks := make([]string, 0, len(m))
	for k := range m {
		ks = append(ks, k)
	}
	sort.Strings(ks)
	return ks
}
