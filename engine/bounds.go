package main

// Cheap interval reasoning over Int terms, used to discharge overflow checks (|x| < 2^256 etc.)
// without a solver call. Variable bounds are harvested from Assume()d comparisons with constants
// and from the defining axioms of fresh division variables.

import "math/big"

type ivl struct{ lo, hi *big.Int } // nil = unbounded on that side

func (ex *Exec) noteBoundsFrom(c *Term) {
	switch c.Op {
	case "and":
		for _, a := range c.Args {
			ex.noteBoundsFrom(a)
		}
	case "<=", "<":
		a, b := c.Args[0], c.Args[1]
		strict := c.Op == "<"
		if a.Op == "var" && b.IsConst() && a.Sort.K == SInt {
			hi := new(big.Int).Set(b.C)
			if strict {
				hi.Sub(hi, one)
			}
			ex.tightenVar(a.Name, nil, hi)
		}
		if b.Op == "var" && a.IsConst() && b.Sort.K == SInt {
			lo := new(big.Int).Set(a.C)
			if strict {
				lo.Add(lo, one)
			}
			ex.tightenVar(b.Name, lo, nil)
		}
	case "not":
		x := c.Args[0]
		if x.Op == "<" || x.Op == "<=" {
			a, b := x.Args[0], x.Args[1]
			// not (a < b)  == b <= a ; not (a <= b) == b < a
			if x.Op == "<" {
				ex.noteBoundsFrom(ex.tf.ILe(b, a))
			} else {
				ex.noteBoundsFrom(ex.tf.ILt(b, a))
			}
		}
	case "=":
		a, b := c.Args[0], c.Args[1]
		if a.Op == "var" && b.IsConst() && a.Sort.K == SInt {
			ex.tightenVar(a.Name, b.C, b.C)
		}
		if b.Op == "var" && a.IsConst() && b.Sort.K == SInt {
			ex.tightenVar(b.Name, a.C, a.C)
		}
	}
}

func (ex *Exec) tightenVar(name string, lo, hi *big.Int) {
	cur := ex.varBounds[name]
	if lo != nil && (cur.lo == nil || lo.Cmp(cur.lo) > 0) {
		cur.lo = lo
	}
	if hi != nil && (cur.hi == nil || hi.Cmp(cur.hi) < 0) {
		cur.hi = hi
	}
	ex.varBounds[name] = cur
	ex.boundMemo = map[int]ivl{}
}

func minBig(xs ...*big.Int) *big.Int {
	m := xs[0]
	for _, x := range xs[1:] {
		if x.Cmp(m) < 0 {
			m = x
		}
	}
	return m
}
func maxBig(xs ...*big.Int) *big.Int {
	m := xs[0]
	for _, x := range xs[1:] {
		if x.Cmp(m) > 0 {
			m = x
		}
	}
	return m
}

func (ex *Exec) bounds(t *Term) ivl {
	if t.Sort.K != SInt {
		return ivl{}
	}
	if t.IsConst() {
		return ivl{t.C, t.C}
	}
	if v, ok := ex.boundMemo[t.ID]; ok {
		return v
	}
	r := ex.bounds1(t)
	if x, ok := ex.extraBounds[t.ID]; ok {
		if x.lo != nil && (r.lo == nil || x.lo.Cmp(r.lo) > 0) {
			r.lo = x.lo
		}
		if x.hi != nil && (r.hi == nil || x.hi.Cmp(r.hi) < 0) {
			r.hi = x.hi
		}
	}
	ex.boundMemo[t.ID] = r
	return r
}

func (ex *Exec) bounds1(t *Term) ivl {
	switch t.Op {
	case "var":
		b := ex.varBounds[t.Name]
		if d, ok := ex.freshDefs[t.Name]; ok && (b.lo == nil || b.hi == nil) {
			// division results: |q| <= |a| when |b| >= 1 ; |r| < |b|
			ba, bb := ex.bounds(d.A), ex.bounds(d.B)
			var m *big.Int
			switch d.Kind {
			case "tq", "eq":
				if ba.lo != nil && ba.hi != nil {
					m = maxBig(new(big.Int).Abs(ba.lo), new(big.Int).Abs(ba.hi))
					// tighter when the divisor is bounded away from zero
					if bb.lo != nil && bb.lo.Sign() > 0 {
						m = new(big.Int).Quo(m, bb.lo)
					}
					if d.Kind == "eq" {
						m = new(big.Int).Add(m, one)
					}
				}
			case "tr", "em":
				if bb.lo != nil && bb.hi != nil {
					m = maxBig(new(big.Int).Abs(bb.lo), new(big.Int).Abs(bb.hi))
				}
			}
			if m != nil {
				lo, hi := new(big.Int).Neg(m), m
				if ba.lo != nil && ba.lo.Sign() >= 0 && bb.lo != nil && bb.lo.Sign() > 0 {
					lo = big.NewInt(0)
				}
				if b.lo == nil || lo.Cmp(b.lo) > 0 {
					b.lo = lo
				}
				if b.hi == nil || hi.Cmp(b.hi) < 0 {
					b.hi = hi
				}
			}
		}
		return b
	case "+":
		a, b := ex.bounds(t.Args[0]), ex.bounds(t.Args[1])
		var r ivl
		if a.lo != nil && b.lo != nil {
			r.lo = new(big.Int).Add(a.lo, b.lo)
		}
		if a.hi != nil && b.hi != nil {
			r.hi = new(big.Int).Add(a.hi, b.hi)
		}
		return r
	case "-":
		if len(t.Args) == 1 {
			a := ex.bounds(t.Args[0])
			var r ivl
			if a.hi != nil {
				r.lo = new(big.Int).Neg(a.hi)
			}
			if a.lo != nil {
				r.hi = new(big.Int).Neg(a.lo)
			}
			return r
		}
		a, b := ex.bounds(t.Args[0]), ex.bounds(t.Args[1])
		var r ivl
		if a.lo != nil && b.hi != nil {
			r.lo = new(big.Int).Sub(a.lo, b.hi)
		}
		if a.hi != nil && b.lo != nil {
			r.hi = new(big.Int).Sub(a.hi, b.lo)
		}
		return r
	case "*":
		a, b := ex.bounds(t.Args[0]), ex.bounds(t.Args[1])
		if a.lo == nil || a.hi == nil || b.lo == nil || b.hi == nil {
			return ivl{}
		}
		p1 := new(big.Int).Mul(a.lo, b.lo)
		p2 := new(big.Int).Mul(a.lo, b.hi)
		p3 := new(big.Int).Mul(a.hi, b.lo)
		p4 := new(big.Int).Mul(a.hi, b.hi)
		return ivl{minBig(p1, p2, p3, p4), maxBig(p1, p2, p3, p4)}
	case "ite":
		a, b := ex.bounds(t.Args[1]), ex.bounds(t.Args[2])
		var r ivl
		if a.lo != nil && b.lo != nil {
			r.lo = minBig(a.lo, b.lo)
		}
		if a.hi != nil && b.hi != nil {
			r.hi = maxBig(a.hi, b.hi)
		}
		return r
	case "bv2nat":
		w := t.Args[0].Sort.W
		return ivl{big.NewInt(0), new(big.Int).Sub(new(big.Int).Lsh(one, uint(w)), one)}
	case "div", "mod":
		a, b := ex.bounds(t.Args[0]), ex.bounds(t.Args[1])
		if t.Op == "mod" && b.lo != nil && b.hi != nil {
			m := maxBig(new(big.Int).Abs(b.lo), new(big.Int).Abs(b.hi))
			return ivl{big.NewInt(0), m}
		}
		if a.lo != nil && a.hi != nil {
			m := maxBig(new(big.Int).Abs(a.lo), new(big.Int).Abs(a.hi))
			m = new(big.Int).Add(m, one)
			return ivl{new(big.Int).Neg(m), m}
		}
	}
	return ivl{}
}

// withinAbs reports whether |t| < limit follows from interval reasoning alone.
func (ex *Exec) withinAbs(t *Term, limit *big.Int) bool {
	b := ex.bounds(t)
	if b.lo == nil || b.hi == nil {
		return false
	}
	return b.hi.Cmp(limit) < 0 && new(big.Int).Neg(b.lo).Cmp(limit) < 0
}
