package main

// Plain Keccak-256 (the pre-NIST padding used by Ethereum), for concrete inputs only
// (EIP-55 checksummed address strings).

var keccakRC = [24]uint64{
	0x0000000000000001, 0x0000000000008082, 0x800000000000808A, 0x8000000080008000,
	0x000000000000808B, 0x0000000080000001, 0x8000000080008081, 0x8000000000008009,
	0x000000000000008A, 0x0000000000000088, 0x0000000080008009, 0x000000008000000A,
	0x000000008000808B, 0x800000000000008B, 0x8000000000008089, 0x8000000000008003,
	0x8000000000008002, 0x8000000000000080, 0x000000000000800A, 0x800000008000000A,
	0x8000000080008081, 0x8000000000008080, 0x0000000080000001, 0x8000000080008008,
}
var keccakRot = [25]uint{0, 1, 62, 28, 27, 36, 44, 6, 55, 20, 3, 10, 43, 25, 39, 41, 45, 15, 21, 8, 18, 2, 61, 56, 14}

func keccakF(a *[25]uint64) {
	for r := 0; r < 24; r++ {
		var c [5]uint64
		for x := 0; x < 5; x++ {
			c[x] = a[x] ^ a[x+5] ^ a[x+10] ^ a[x+15] ^ a[x+20]
		}
		for x := 0; x < 5; x++ {
			d := c[(x+4)%5] ^ (c[(x+1)%5]<<1 | c[(x+1)%5]>>63)
			for y := 0; y < 25; y += 5 {
				a[x+y] ^= d
			}
		}
		var b [25]uint64
		for x := 0; x < 5; x++ {
			for y := 0; y < 5; y++ {
				v := a[x+5*y]
				k := keccakRot[x+5*y]
				if k != 0 {
					v = v<<k | v>>(64-k)
				}
				b[y+5*((2*x+3*y)%5)] = v
			}
		}
		for x := 0; x < 5; x++ {
			for y := 0; y < 5; y++ {
				a[x+5*y] = b[x+5*y] ^ (^b[(x+1)%5+5*y] & b[(x+2)%5+5*y])
			}
		}
		a[0] ^= keccakRC[r]
	}
}

func keccak256(in []byte) [32]byte {
	const rate = 136
	var st [25]uint64
	p := append([]byte{}, in...)
	p = append(p, 0x01)
	for len(p)%rate != 0 {
		p = append(p, 0)
	}
	p[len(p)-1] |= 0x80
	for off := 0; off < len(p); off += rate {
		for i := 0; i < rate/8; i++ {
			var w uint64
			for j := 0; j < 8; j++ {
				w |= uint64(p[off+8*i+j]) << (8 * uint(j))
			}
			st[i] ^= w
		}
		keccakF(&st)
	}
	var out [32]byte
	for i := 0; i < 4; i++ {
		for j := 0; j < 8; j++ {
			out[8*i+j] = byte(st[i] >> (8 * uint(j)))
		}
	}
	return out
}

// eip55 returns the checksummed 0x-hex form of a 20-byte address.
func eip55(addr []byte) string {
	const hexd = "0123456789abcdef"
	buf := make([]byte, 40)
	for i, b := range addr {
		buf[2*i] = hexd[b>>4]
		buf[2*i+1] = hexd[b&15]
	}
	h := keccak256(buf)
	for i := range buf {
		nib := h[i/2]
		if i%2 == 0 {
			nib >>= 4
		} else {
			nib &= 15
		}
		if buf[i] > '9' && nib > 7 {
			buf[i] -= 32
		}
	}
	return "0x" + string(buf)
}
