package main

import (
	"fmt"
	"go/constant"
	"go/token"
	"go/types"
	"math/big"
	"strings"
	"sync"

	"golang.org/x/tools/go/ssa"
)

type fnInfo struct {
	idx map[ssa.Value]int
	n   int
}

var fnInfos sync.Map

func infoFor(fn *ssa.Function) *fnInfo {
	if v, ok := fnInfos.Load(fn); ok {
		return v.(*fnInfo)
	}
	fi := &fnInfo{idx: map[ssa.Value]int{}}
	for _, p := range fn.Params {
		fi.idx[p] = fi.n
		fi.n++
	}
	for _, fv := range fn.FreeVars {
		fi.idx[fv] = fi.n
		fi.n++
	}
	for _, b := range fn.Blocks {
		for _, in := range b.Instrs {
			if v, ok := in.(ssa.Value); ok {
				fi.idx[v] = fi.n
				fi.n++
			}
		}
	}
	fnInfos.Store(fn, fi)
	return fi
}

type deferred struct {
	fn   Val
	args []Val
	call *ssa.CallCommon
}

type Frame struct {
	fn        *ssa.Function
	info      *fnInfo
	locals    []Val
	defers    []deferred
	cur       ssa.Instruction
	visits    map[int]int
	symVisits map[int]int
	result    Val
	hasRes    bool
	panicIn   *goPanicSig
}

func (ex *Exec) get(fr *Frame, v ssa.Value) Val {
	switch x := v.(type) {
	case *ssa.Const:
		return ex.constVal(x)
	case *ssa.Global:
		return PtrV{C: ex.globalCell(x)}
	case *ssa.Function:
		return FuncV{Fn: x}
	case *ssa.Builtin:
		return FuncV{Name: "builtin:" + x.Name()}
	}
	i, ok := fr.info.idx[v]
	if !ok {
		panic(engineErr(fmt.Sprintf("no slot for %s (%T) in %s", v.Name(), v, fr.fn)))
	}
	return fr.locals[i]
}

func (ex *Exec) set(fr *Frame, v ssa.Value, val Val) {
	fr.locals[fr.info.idx[v]] = val
}

func (ex *Exec) constVal(c *ssa.Const) Val {
	t := c.Type()
	if c.Value == nil {
		return ex.zero(t)
	}
	switch u := t.Underlying().(type) {
	case *types.Basic:
		switch {
		case u.Info()&types.IsBoolean != 0:
			return ex.tf.Bool(constant.BoolVal(c.Value))
		case u.Info()&types.IsInteger != 0:
			bi, ok := constant.Val(constant.ToInt(c.Value)).(*big.Int)
			if !ok {
				i64, _ := constant.Int64Val(constant.ToInt(c.Value))
				bi = big.NewInt(i64)
			}
			return ex.tf.BVConst(bi, intWidth(u))
		case u.Info()&types.IsString != 0:
			return ex.mkStr(constant.StringVal(c.Value))
		case u.Info()&types.IsFloat != 0:
			return OpaqueV{"float:" + c.Value.ExactString()}
		}
	}
	panic(engineErr("const of type " + t.String()))
}

func (ex *Exec) globalCell(g *ssa.Global) *Cell {
	if c, ok := ex.globals[g]; ok {
		return c
	}
	if g.Pkg != nil {
		ex.ensureInit(g.Pkg)
		if c, ok := ex.globals[g]; ok {
			return c
		}
	}
	c := ex.newCell(ex.zero(g.Type().(*types.Pointer).Elem()))
	ex.globals[g] = c
	return c
}

func (ex *Exec) isRepoPkg(p *ssa.Package) bool {
	return p != nil && strings.HasPrefix(p.Pkg.Path(), repoPath)
}

// ensureInit runs the package initializer (repo packages only), tolerant of unmodelled calls.
// The resulting global values are cached per worker and cloned into each later path.
func (ex *Exec) ensureInit(p *ssa.Package) {
	if ex.initDone[p] {
		return
	}
	ex.initDone[p] = true
	if snap, ok := ex.wk.initCache[p]; ok {
		memo := map[interface{}]interface{}{}
		for g, v := range snap {
			ex.globals[g] = ex.newCell(ex.cloneVal(v, memo))
		}
		return
	}
	// allocate all globals of the package first
	var gl []*ssa.Global
	for _, m := range p.Members {
		if g, ok := m.(*ssa.Global); ok {
			gl = append(gl, g)
			if _, ok := ex.globals[g]; !ok {
				ex.globals[g] = ex.newCell(ex.zero(g.Type().(*types.Pointer).Elem()))
			}
		}
	}
	defer func() {
		snap := map[*ssa.Global]Val{}
		for _, g := range gl {
			snap[g] = ex.globals[g].V
		}
		ex.wk.initCache[p] = snap
	}()
	if !ex.isRepoPkg(p) {
		ex.initExternalGlobals(p)
		return
	}
	init := p.Func("init")
	if init == nil || len(init.Blocks) == 0 {
		return
	}
	saved := ex.initing
	savedFrames := ex.frames
	savedDepth := ex.depth
	ex.initing = true
	func() {
		defer func() {
			if r := recover(); r != nil {
				switch r.(type) {
				case unmodelledSig, *goPanicSig:
					// tolerated: remaining initializers keep zero values
					if ex.w.debug {
						fmt.Printf("init of %s stopped: %v\n", p.Pkg.Path(), r)
					}
				default:
					panic(r)
				}
			}
		}()
		ex.callFunction(init, nil)
	}()
	ex.initing = saved
	ex.frames = savedFrames
	ex.depth = savedDepth
}

// cloneVal copies the mutable parts (cells, maps) of a value graph; immutable aggregates of
// scalars are shared.
func (ex *Exec) cloneVal(v Val, memo map[interface{}]interface{}) Val {
	switch x := v.(type) {
	case StructV:
		f := make([]Val, len(x.F))
		for i := range f {
			f[i] = ex.cloneVal(x.F[i], memo)
		}
		return StructV{F: f}
	case ArrayV:
		if len(x.E) == 0 {
			return x
		}
		if _, ok := x.E[0].(*Term); ok {
			return x
		}
		e := make([]Val, len(x.E))
		for i := range e {
			e[i] = ex.cloneVal(x.E[i], memo)
		}
		return ArrayV{E: e}
	case PtrV:
		if x.C == nil {
			return x
		}
		if c, ok := memo[x.C]; ok {
			return PtrV{C: c.(*Cell), Path: x.Path}
		}
		nc := ex.newCell(nil)
		memo[x.C] = nc
		nc.V = ex.cloneVal(x.C.V, memo)
		return PtrV{C: nc, Path: x.Path}
	case SliceV:
		if x.Nil || x.P.C == nil {
			return x
		}
		np := ex.cloneVal(x.P, memo).(PtrV)
		return SliceV{P: np, Off: x.Off, Len: x.Len, Cap: x.Cap}
	case MapV:
		if x.M == nil {
			return x
		}
		if m, ok := memo[x.M]; ok {
			return MapV{M: m.(*MapObj)}
		}
		nm := &MapObj{ID: x.M.ID}
		memo[x.M] = nm
		for i := range x.M.Keys {
			nm.Keys = append(nm.Keys, ex.cloneVal(x.M.Keys[i], memo))
			nm.Vals = append(nm.Vals, ex.cloneVal(x.M.Vals[i], memo))
		}
		return MapV{M: nm}
	case IfaceV:
		if x.T == nil {
			return x
		}
		return IfaceV{T: x.T, V: ex.cloneVal(x.V, memo)}
	case FuncV:
		if len(x.Bind) == 0 {
			return x
		}
		b := make([]Val, len(x.Bind))
		for i := range b {
			b[i] = ex.cloneVal(x.Bind[i], memo)
		}
		return FuncV{Fn: x.Fn, Bind: b, Native: x.Native, Name: x.Name}
	case TupleV:
		t := make(TupleV, len(x))
		for i := range t {
			t[i] = ex.cloneVal(x[i], memo)
		}
		return t
	}
	return v
}

func (ex *Exec) callFunction(fn *ssa.Function, args []Val) Val {
	if len(fn.Blocks) == 0 {
		return ex.callExternal(fn, args)
	}
	if ex.depth > 200 {
		ex.unmodelled("call depth > 200 in " + fn.String())
	}
	if !ex.initing {
		ex.res.Funcs[fn.String()] = true
	}
	fi := infoFor(fn)
	fr := &Frame{fn: fn, info: fi, locals: make([]Val, fi.n)}
	for i := range fn.Params {
		fr.locals[i] = args[i]
	}
	ex.depth++
	ex.frames = append(ex.frames, fr)
	defer func() {
		ex.depth--
		ex.frames = ex.frames[:len(ex.frames)-1]
	}()
	ex.runFrame(fr)
	return fr.result
}

func (ex *Exec) callClosure(f FuncV, args []Val) Val {
	if f.Native != nil {
		return f.Native(ex, args)
	}
	if f.Fn == nil {
		if strings.HasPrefix(f.Name, "builtin:") {
			return ex.callBuiltin(strings.TrimPrefix(f.Name, "builtin:"), args, nil)
		}
		ex.goPanic("call of nil func")
	}
	if len(f.Fn.Blocks) == 0 {
		return ex.callExternal(f.Fn, args)
	}
	if ex.depth > 200 {
		ex.unmodelled("call depth > 200")
	}
	fn := f.Fn
	if !ex.initing {
		ex.res.Funcs[fn.String()] = true
	}
	fi := infoFor(fn)
	fr := &Frame{fn: fn, info: fi, locals: make([]Val, fi.n)}
	np := len(fn.Params)
	for i := 0; i < np; i++ {
		fr.locals[i] = args[i]
	}
	for i := range fn.FreeVars {
		fr.locals[np+i] = f.Bind[i]
	}
	ex.depth++
	ex.frames = append(ex.frames, fr)
	defer func() {
		ex.depth--
		ex.frames = ex.frames[:len(ex.frames)-1]
	}()
	ex.runFrame(fr)
	return fr.result
}

// runFrame executes the blocks of a frame, handling defers and panics.
func (ex *Exec) runFrame(fr *Frame) {
	completed := false
	func() {
		defer func() {
			if completed {
				return
			}
			r := recover()
			if r == nil {
				return
			}
			gp, ok := r.(*goPanicSig)
			if !ok {
				panic(r)
			}
			// interpreted panic: run deferred calls, they may recover
			fr.panicIn = gp
			ex.runDefers(fr)
			if fr.panicIn != nil {
				panic(fr.panicIn)
			}
			// recovered: function returns its named results (read from Recover block) or zero
			if fr.fn.Recover != nil {
				ex.execBlocks(fr, fr.fn.Recover)
			} else if !fr.hasRes {
				res := fr.fn.Signature.Results()
				switch res.Len() {
				case 0:
				case 1:
					fr.result = ex.zero(res.At(0).Type())
				default:
					fr.result = ex.zero(res)
				}
			}
		}()
		ex.execBlocks(fr, fr.fn.Blocks[0])
		completed = true
	}()
}

func (ex *Exec) runDefers(fr *Frame) {
	for len(fr.defers) > 0 {
		d := fr.defers[len(fr.defers)-1]
		fr.defers = fr.defers[:len(fr.defers)-1]
		saved := ex.curPanic
		ex.curPanic = fr.panicIn
		owner := fr
		ex.recoverOwner = append(ex.recoverOwner, owner)
		func() {
			defer func() {
				ex.recoverOwner = ex.recoverOwner[:len(ex.recoverOwner)-1]
				ex.curPanic = saved
			}()
			ex.invokeDeferred(d)
		}()
	}
}

func (ex *Exec) invokeDeferred(d deferred) {
	if d.call != nil && d.call.IsInvoke() {
		ex.invoke(d.fn, d.call.Method, d.args, d.call)
		return
	}
	ex.callClosure(d.fn.(FuncV), d.args)
}

func (ex *Exec) execBlocks(fr *Frame, start *ssa.BasicBlock) {
	b := start
	var pred *ssa.BasicBlock
	if fr.visits == nil {
		fr.visits = map[int]int{}
	}
	for b != nil {
		fr.visits[b.Index]++
		if fr.visits[b.Index] > 200000 && !ex.initing {
			ex.noteInconcl(fmt.Sprintf("concrete loop cap exceeded in %s (block %d)", fr.fn.String(), b.Index))
			panic(pathEndSig{"unwind"})
		}
		// phis first (simultaneous)
		nphi := 0
		if pred != nil {
			pi := -1
			for i, p := range b.Preds {
				if p == pred {
					pi = i
					break
				}
			}
			var vals []Val
			for _, in := range b.Instrs {
				phi, ok := in.(*ssa.Phi)
				if !ok {
					break
				}
				vals = append(vals, ex.get(fr, phi.Edges[pi]))
				nphi++
			}
			for i := 0; i < nphi; i++ {
				ex.set(fr, b.Instrs[i].(*ssa.Phi), vals[i])
			}
		}
		var next *ssa.BasicBlock
		for _, in := range b.Instrs[nphi:] {
			fr.cur = in
			ex.instrs++
			if ex.instrs > ex.maxInstrs {
				panic(pathEndSig{"instr-budget"})
			}
			switch x := in.(type) {
			case *ssa.If:
				c := ex.get(fr, x.Cond).(*Term)
				if !c.IsConst() && !ex.initing {
					// unwinding assertion: only symbolic loop/branch decisions count against the bound
					if fr.symVisits == nil {
						fr.symVisits = map[int]int{}
					}
					fr.symVisits[b.Index]++
					if fr.symVisits[b.Index] > ex.unwind {
						ex.noteInconcl(fmt.Sprintf("unwinding bound %d exceeded in %s at %s", ex.unwind, fr.fn.String(), ex.curPos()))
						panic(pathEndSig{"unwind"})
					}
				}
				if ex.Branch(c) {
					next = b.Succs[0]
				} else {
					next = b.Succs[1]
				}
			case *ssa.Jump:
				next = b.Succs[0]
			case *ssa.Return:
				switch len(x.Results) {
				case 0:
				case 1:
					fr.result = ex.get(fr, x.Results[0])
				default:
					tv := make(TupleV, len(x.Results))
					for i, r := range x.Results {
						tv[i] = ex.get(fr, r)
					}
					fr.result = tv
				}
				fr.hasRes = true
				return
			case *ssa.Panic:
				v := ex.get(fr, x.X)
				panic(&goPanicSig{msg: "explicit panic: " + ex.panicText(v), val: v, pos: ex.curPos()})
			default:
				ex.execInstr(fr, in)
			}
		}
		pred = b
		b = next
	}
}

func (ex *Exec) panicText(v Val) string {
	if iv, ok := v.(IfaceV); ok {
		switch x := iv.V.(type) {
		case StrV:
			if s, ok := concreteBytes(x.B); ok && !x.Opaque {
				return s
			}
			return "<string " + x.Tag + ">"
		case *ErrV:
			return x.Root + ": " + x.Msg
		}
		if iv.T != nil {
			return iv.T.String()
		}
	}
	return "?"
}

func (ex *Exec) execInstr(fr *Frame, in ssa.Instruction) {
	switch x := in.(type) {
	case *ssa.Alloc:
		c := ex.newCell(ex.zero(x.Type().(*types.Pointer).Elem()))
		ex.set(fr, x, PtrV{C: c})
	case *ssa.UnOp:
		ex.set(fr, x, ex.unop(fr, x))
	case *ssa.BinOp:
		ex.set(fr, x, ex.binop(x.Op, ex.get(fr, x.X), ex.get(fr, x.Y), x.X.Type(), x.Y.Type()))
	case *ssa.Store:
		p := ex.get(fr, x.Addr).(PtrV)
		ex.store(p, ex.get(fr, x.Val))
	case *ssa.FieldAddr:
		p := ex.get(fr, x.X).(PtrV)
		if p.C == nil {
			ex.goPanic("nil pointer dereference (field " + fieldName(x.X.Type(), x.Field) + ")")
		}
		ex.set(fr, x, p.sub(x.Field))
	case *ssa.Field:
		v := ex.get(fr, x.X)
		sv, ok := v.(StructV)
		if !ok {
			panic(engineErr(fmt.Sprintf("Field on %T (%s)", v, x.X.Type())))
		}
		ex.set(fr, x, sv.F[x.Field])
	case *ssa.IndexAddr:
		ex.set(fr, x, ex.indexAddr(fr, x))
	case *ssa.Index:
		ex.set(fr, x, ex.index(fr, x))
	case *ssa.Lookup:
		ex.set(fr, x, ex.lookup(fr, x))
	case *ssa.Slice:
		ex.set(fr, x, ex.sliceOp(fr, x))
	case *ssa.MakeSlice:
		n := ex.concretizeInt(ex.get(fr, x.Len).(*Term), 0, 4096, "make len")
		cp := ex.concretizeInt(ex.get(fr, x.Cap).(*Term), 0, 4096, "make cap")
		if cp < n {
			ex.goPanic("makeslice: cap out of range")
		}
		z := ex.zero(x.Type().Underlying().(*types.Slice).Elem())
		e := make([]Val, n)
		for i := range e {
			e[i] = z
		}
		s := ex.newSlice(e, cp)
		// fill spare capacity with zero values
		arr := s.P.C.V.(ArrayV)
		for i := n; i < cp; i++ {
			arr.E[i] = z
		}
		ex.set(fr, x, s)
	case *ssa.MakeMap:
		ex.cellSeq++
		ex.set(fr, x, MapV{M: &MapObj{ID: ex.cellSeq}})
	case *ssa.MapUpdate:
		m := ex.get(fr, x.Map).(MapV)
		if m.M == nil {
			ex.goPanic("assignment to entry in nil map")
		}
		ex.mapSet(m.M, ex.get(fr, x.Key), ex.get(fr, x.Value))
	case *ssa.MakeInterface:
		ex.set(fr, x, IfaceV{T: x.X.Type(), V: ex.get(fr, x.X)})
	case *ssa.MakeClosure:
		b := make([]Val, len(x.Bindings))
		for i, bv := range x.Bindings {
			b[i] = ex.get(fr, bv)
		}
		ex.set(fr, x, FuncV{Fn: x.Fn.(*ssa.Function), Bind: b})
	case *ssa.ChangeType:
		ex.set(fr, x, ex.get(fr, x.X))
	case *ssa.ChangeInterface:
		ex.set(fr, x, ex.get(fr, x.X))
	case *ssa.Convert:
		ex.set(fr, x, ex.convert(ex.get(fr, x.X), x.X.Type(), x.Type()))
	case *ssa.MultiConvert:
		ex.set(fr, x, ex.convert(ex.get(fr, x.X), x.X.Type(), x.Type()))
	case *ssa.SliceToArrayPointer:
		s := ex.get(fr, x.X).(SliceV)
		n := int(x.Type().(*types.Pointer).Elem().Underlying().(*types.Array).Len())
		if s.Len < n {
			ex.goPanic("slice to array pointer: length too short")
		}
		if s.Nil {
			ex.set(fr, x, PtrV{})
		} else {
			// copy semantics are wrong for aliasing but adequate for read-mostly uses; alias when offset 0 and exact
			if s.Off == 0 {
				arr := ex.load(s.P).(ArrayV)
				if len(arr.E) == n {
					ex.set(fr, x, s.P)
					break
				}
			}
			ex.unmodelled("slice-to-array-pointer with offset")
		}
	case *ssa.TypeAssert:
		ex.set(fr, x, ex.typeAssert(fr, x))
	case *ssa.Extract:
		t := ex.get(fr, x.Tuple).(TupleV)
		ex.set(fr, x, t[x.Index])
	case *ssa.Call:
		ex.set(fr, x, ex.call(fr, &x.Call, x))
	case *ssa.Defer:
		d := deferred{call: &x.Call}
		if x.Call.IsInvoke() {
			d.fn = ex.get(fr, x.Call.Value)
		} else {
			d.fn = ex.get(fr, x.Call.Value)
		}
		for _, a := range x.Call.Args {
			d.args = append(d.args, ex.get(fr, a))
		}
		fr.defers = append(fr.defers, d)
	case *ssa.RunDefers:
		ex.runDefers(fr)
	case *ssa.Range:
		ex.set(fr, x, ex.rangeStart(ex.get(fr, x.X)))
	case *ssa.Next:
		ex.set(fr, x, ex.rangeNext(fr, x))
	case *ssa.DebugRef:
	case *ssa.Go:
		ex.unmodelled("go statement")
	case *ssa.Select:
		ex.unmodelled("select")
	case *ssa.Send:
		ex.unmodelled("channel send")
	case *ssa.MakeChan:
		ex.set(fr, x, OpaqueV{"chan"})
	default:
		panic(engineErr(fmt.Sprintf("unhandled instruction %T", in)))
	}
}

func fieldName(t types.Type, i int) string {
	if p, ok := t.Underlying().(*types.Pointer); ok {
		t = p.Elem()
	}
	if s, ok := t.Underlying().(*types.Struct); ok && i < s.NumFields() {
		return s.Field(i).Name()
	}
	return fmt.Sprint(i)
}

// concretizeInt turns a BV term into a Go int, forking over lo..hi when symbolic.
func (ex *Exec) concretizeInt(t *Term, lo, hi int, what string) int {
	if t.IsConst() {
		v := signedOf(t.C, t.Sort.W)
		if !v.IsInt64() {
			return int(^uint(0) >> 1)
		}
		return int(v.Int64())
	}
	if hi-lo > 64 {
		hi = lo + 64
	}
	for i := lo; i <= hi; i++ {
		if ex.Branch(ex.tf.Eq(t, ex.tf.BVi(int64(i), t.Sort.W))) {
			return i
		}
	}
	ex.noteInconcl("symbolic integer outside concretisation range in " + what + " at " + ex.curPos())
	ex.endPath("unwind")
	return 0
}

// concretizeIndex: index into a sequence of length n; panics (Go) when out of range.
func (ex *Exec) concretizeIndex(t *Term, n int, signed bool) int {
	if t.IsConst() {
		v := t.C
		if signed {
			v = signedOf(t.C, t.Sort.W)
		}
		if v.Sign() < 0 || v.Cmp(big.NewInt(int64(n))) >= 0 {
			ex.goPanic(fmt.Sprintf("index out of range [%s] with length %d", v, n))
		}
		return int(v.Int64())
	}
	w := t.Sort.W
	inRange := ex.tf.BVUlt(t, ex.tf.BVu(uint64(n), w))
	if !ex.Branch(inRange) {
		ex.goPanic(fmt.Sprintf("index out of range [symbolic] with length %d", n))
	}
	for i := 0; i < n-1; i++ {
		if ex.Branch(ex.tf.Eq(t, ex.tf.BVu(uint64(i), w))) {
			return i
		}
	}
	// last one is implied
	ex.addPC(ex.tf.Eq(t, ex.tf.BVu(uint64(n-1), w)))
	return n - 1
}

func (ex *Exec) indexAddr(fr *Frame, x *ssa.IndexAddr) Val {
	base := ex.get(fr, x.X)
	idx := ex.get(fr, x.Index).(*Term)
	signed := isSigned(x.Index.Type())
	switch b := base.(type) {
	case SliceV:
		i := ex.concretizeIndex(idx, b.Len, signed)
		return b.P.sub(b.Off + i)
	case PtrV:
		if b.C == nil {
			ex.goPanic("nil pointer dereference (array index)")
		}
		n := int(x.X.Type().Underlying().(*types.Pointer).Elem().Underlying().(*types.Array).Len())
		i := ex.concretizeIndex(idx, n, signed)
		return b.sub(i)
	}
	panic(engineErr(fmt.Sprintf("IndexAddr on %T", base)))
}

func (ex *Exec) index(fr *Frame, x *ssa.Index) Val {
	base := ex.get(fr, x.X)
	idx := ex.get(fr, x.Index).(*Term)
	signed := isSigned(x.Index.Type())
	switch b := base.(type) {
	case ArrayV:
		i := ex.concretizeIndex(idx, len(b.E), signed)
		return b.E[i]
	case StrV:
		bs := ex.bytesOf(b)
		i := ex.concretizeIndex(idx, len(bs), signed)
		return bs[i]
	}
	panic(engineErr(fmt.Sprintf("Index on %T", base)))
}

func (ex *Exec) lookup(fr *Frame, x *ssa.Lookup) Val {
	base := ex.get(fr, x.X)
	switch b := base.(type) {
	case StrV:
		idx := ex.get(fr, x.Index).(*Term)
		bs := ex.bytesOf(b)
		i := ex.concretizeIndex(idx, len(bs), isSigned(x.Index.Type()))
		return bs[i]
	case MapV:
		key := ex.get(fr, x.Index)
		var v Val
		found := false
		if b.M != nil {
			v, found = ex.mapGet(b.M, key)
		}
		if !found {
			v = ex.zero(x.X.Type().Underlying().(*types.Map).Elem())
		}
		if x.CommaOk {
			return TupleV{v, ex.tf.Bool(found)}
		}
		return v
	}
	panic(engineErr(fmt.Sprintf("Lookup on %T", base)))
}

func (ex *Exec) mapGet(m *MapObj, key Val) (Val, bool) {
	for i, k := range m.Keys {
		if ex.Branch(ex.valEq(k, key)) {
			return m.Vals[i], true
		}
	}
	return nil, false
}

func (ex *Exec) mapSet(m *MapObj, key, val Val) {
	for i, k := range m.Keys {
		if ex.Branch(ex.valEq(k, key)) {
			m.Vals[i] = val
			return
		}
	}
	m.Keys = append(m.Keys, key)
	m.Vals = append(m.Vals, val)
}

func (ex *Exec) mapDelete(m *MapObj, key Val) {
	for i, k := range m.Keys {
		if ex.Branch(ex.valEq(k, key)) {
			m.Keys = append(append([]Val{}, m.Keys[:i]...), m.Keys[i+1:]...)
			m.Vals = append(append([]Val{}, m.Vals[:i]...), m.Vals[i+1:]...)
			return
		}
	}
}

func (ex *Exec) sliceOp(fr *Frame, x *ssa.Slice) Val {
	base := ex.get(fr, x.X)
	var lo, hi, mx = 0, -1, -1
	conc := func(v ssa.Value, limit int) int {
		t := ex.get(fr, v).(*Term)
		if t.IsConst() {
			s := signedOf(t.C, t.Sort.W)
			if s.Sign() < 0 || !s.IsInt64() {
				ex.goPanic("slice bounds out of range")
			}
			return int(s.Int64())
		}
		// symbolic bound: must be within [0,limit]
		if !ex.Branch(ex.tf.BVUle(t, ex.tf.BVu(uint64(limit), t.Sort.W))) {
			ex.goPanic("slice bounds out of range (symbolic)")
		}
		return ex.concretizeInt(t, 0, limit, "slice bound")
	}
	switch b := base.(type) {
	case StrV:
		bs := ex.bytesOf(b)
		if x.Low != nil {
			lo = conc(x.Low, len(bs))
		}
		hi = len(bs)
		if x.High != nil {
			hi = conc(x.High, len(bs))
		}
		if lo > hi || hi > len(bs) {
			ex.goPanic(fmt.Sprintf("slice bounds out of range [%d:%d] with length %d", lo, hi, len(bs)))
		}
		return StrV{B: bs[lo:hi]}
	case SliceV:
		if x.Low != nil {
			lo = conc(x.Low, b.Cap)
		}
		hi = b.Len
		if x.High != nil {
			hi = conc(x.High, b.Cap)
		}
		mx = b.Cap
		if x.Max != nil {
			mx = conc(x.Max, b.Cap)
		}
		if lo > hi || hi > mx || mx > b.Cap {
			ex.goPanic(fmt.Sprintf("slice bounds out of range [%d:%d:%d] with capacity %d", lo, hi, mx, b.Cap))
		}
		if b.Nil {
			return b
		}
		return SliceV{P: b.P, Off: b.Off + lo, Len: hi - lo, Cap: mx - lo}
	case PtrV: // pointer to array
		if b.C == nil {
			ex.goPanic("nil pointer dereference (slice of array pointer)")
		}
		n := int(x.X.Type().Underlying().(*types.Pointer).Elem().Underlying().(*types.Array).Len())
		if x.Low != nil {
			lo = conc(x.Low, n)
		}
		hi = n
		if x.High != nil {
			hi = conc(x.High, n)
		}
		mx = n
		if x.Max != nil {
			mx = conc(x.Max, n)
		}
		if lo > hi || hi > mx || mx > n {
			ex.goPanic("slice bounds out of range (array)")
		}
		return SliceV{P: b, Off: lo, Len: hi - lo, Cap: mx - lo}
	}
	panic(engineErr(fmt.Sprintf("Slice on %T", base)))
}

func (ex *Exec) unop(fr *Frame, x *ssa.UnOp) Val {
	v := ex.get(fr, x.X)
	switch x.Op {
	case token.MUL:
		p, ok := v.(PtrV)
		if !ok {
			panic(engineErr(fmt.Sprintf("deref of %T", v)))
		}
		if p.C == nil {
			ex.goPanic("nil pointer dereference")
		}
		return ex.load(p)
	case token.NOT:
		return ex.tf.Not(v.(*Term))
	case token.SUB:
		if t, ok := v.(*Term); ok {
			return ex.tf.BVNeg(t)
		}
	case token.XOR:
		return ex.tf.BVNot(v.(*Term))
	case token.ARROW:
		ex.unmodelled("channel receive")
	}
	ex.unmodelled(fmt.Sprintf("unop %s on %T", x.Op, v))
	return nil
}

func (ex *Exec) binop(op token.Token, a, b Val, ta, tb types.Type) Val {
	tf := ex.tf
	switch x := a.(type) {
	case *Term:
		y, ok := b.(*Term)
		if !ok {
			break
		}
		if x.Sort.K == SBool {
			switch op {
			case token.EQL:
				return tf.Eq(x, y)
			case token.NEQ:
				return tf.Not(tf.Eq(x, y))
			case token.LAND:
				return tf.And(x, y)
			case token.LOR:
				return tf.Or(x, y)
			}
			break
		}
		signed := isSigned(ta)
		w := x.Sort.W
		switch op {
		case token.ADD:
			return tf.BVAdd(x, y)
		case token.SUB:
			return tf.BVSub(x, y)
		case token.MUL:
			return tf.BVMul(x, y)
		case token.QUO, token.REM:
			if ex.Branch(tf.Eq(y, tf.BVu(0, w))) {
				ex.goPanic("integer divide by zero")
			}
			if signed {
				if op == token.QUO {
					return tf.BVSDiv(x, y)
				}
				return tf.BVSRem(x, y)
			}
			if op == token.QUO {
				return tf.BVUDiv(x, y)
			}
			return tf.BVURem(x, y)
		case token.AND:
			return tf.BVAnd(x, y)
		case token.OR:
			return tf.BVOr(x, y)
		case token.XOR:
			return tf.BVXor(x, y)
		case token.AND_NOT:
			return tf.BVAnd(x, tf.BVNot(y))
		case token.SHL, token.SHR:
			// shift count y may have a different width / signedness
			if isSigned(tb) {
				if ex.Branch(tf.BVSlt(y, tf.BVu(0, y.Sort.W))) {
					ex.goPanic("negative shift amount")
				}
			}
			var big_ *Term // condition: count >= w
			yw := y.Sort.W
			big_ = tf.Not(tf.BVUlt(y, tf.BVu(uint64(w), yw)))
			ys := tf.Resize(y, w, false)
			var sh, over *Term
			if op == token.SHL {
				sh = tf.BVShl(x, ys)
				over = tf.BVu(0, w)
			} else if signed {
				sh = tf.BVAshr(x, ys)
				over = tf.BVAshr(x, tf.BVu(uint64(w-1), w))
			} else {
				sh = tf.BVLshr(x, ys)
				over = tf.BVu(0, w)
			}
			return tf.Ite(big_, over, sh)
		case token.EQL:
			return tf.Eq(x, y)
		case token.NEQ:
			return tf.Not(tf.Eq(x, y))
		case token.LSS:
			if signed {
				return tf.BVSlt(x, y)
			}
			return tf.BVUlt(x, y)
		case token.LEQ:
			if signed {
				return tf.BVSle(x, y)
			}
			return tf.BVUle(x, y)
		case token.GTR:
			if signed {
				return tf.BVSlt(y, x)
			}
			return tf.BVUlt(y, x)
		case token.GEQ:
			if signed {
				return tf.BVSle(y, x)
			}
			return tf.BVUle(y, x)
		}
	case StrV:
		y, ok := b.(StrV)
		if !ok {
			break
		}
		switch op {
		case token.ADD:
			if x.Opaque || y.Opaque {
				return StrV{Opaque: true, Tag: "concat"}
			}
			nb := make([]*Term, 0, len(x.B)+len(y.B))
			nb = append(nb, x.B...)
			nb = append(nb, y.B...)
			return StrV{B: nb}
		case token.EQL:
			return ex.valEq(x, y)
		case token.NEQ:
			return tf.Not(ex.valEq(x, y))
		case token.LSS:
			return ex.bytesLt(ex.bytesOf(x), ex.bytesOf(y))
		case token.GTR:
			return ex.bytesLt(ex.bytesOf(y), ex.bytesOf(x))
		case token.LEQ:
			return tf.Not(ex.bytesLt(ex.bytesOf(y), ex.bytesOf(x)))
		case token.GEQ:
			return tf.Not(ex.bytesLt(ex.bytesOf(x), ex.bytesOf(y)))
		}
	}
	switch op {
	case token.EQL:
		return ex.valEq(a, b)
	case token.NEQ:
		return tf.Not(ex.valEq(a, b))
	}
	if _, ok := a.(OpaqueV); ok {
		ex.unmodelled("arithmetic on " + a.(OpaqueV).Tag)
	}
	ex.unmodelled(fmt.Sprintf("binop %s on %T,%T", op, a, b))
	return nil
}

func (ex *Exec) convert(v Val, from, to types.Type) Val {
	fu, tu := from.Underlying(), to.Underlying()
	switch t := tu.(type) {
	case *types.Basic:
		switch {
		case t.Info()&types.IsInteger != 0:
			if x, ok := v.(*Term); ok && x.Sort.K == SBV {
				return ex.tf.Resize(x, intWidth(t), isSigned(from))
			}
			if _, ok := v.(OpaqueV); ok {
				ex.unmodelled("float to int conversion")
			}
		case t.Info()&types.IsString != 0:
			switch x := v.(type) {
			case StrV:
				return x
			case SliceV:
				if _, isRune := fu.(*types.Slice); isRune {
					if b, ok := fu.(*types.Slice).Elem().Underlying().(*types.Basic); ok && b.Kind() == types.Int32 {
						ex.unmodelled("[]rune to string")
					}
				}
				bs := ex.bytesOf(x)
				nb := make([]*Term, len(bs))
				copy(nb, bs)
				return StrV{B: nb}
			case *Term:
				// integer -> string (rune)
				if x.IsConst() && x.C.Cmp(big.NewInt(128)) < 0 {
					return ex.mkStr(string(rune(x.C.Int64())))
				}
				ex.unmodelled("int to string conversion")
			case BlobV:
				ex.unmodelled("blob to string")
			}
		case t.Info()&types.IsFloat != 0:
			return OpaqueV{"float"}
		case t.Kind() == types.UnsafePointer:
			return v
		}
	case *types.Slice:
		switch x := v.(type) {
		case StrV:
			if b, ok := t.Elem().Underlying().(*types.Basic); ok && b.Kind() == types.Int32 {
				// []rune(s): ASCII only
				bs := ex.bytesOf(x)
				e := make([]Val, len(bs))
				for i, c := range bs {
					if !c.IsConst() || c.C.Cmp(big.NewInt(128)) >= 0 {
						ex.unmodelled("[]rune of non-ASCII/symbolic string")
					}
					e[i] = ex.tf.ZExt(c, 32)
				}
				return ex.newSlice(e, len(e))
			}
			bs := ex.bytesOf(x)
			s := ex.mkBytes(bs)
			return s
		case SliceV:
			return x
		case BlobV:
			return x
		}
	case *types.Pointer:
		return v
	}
	if types.Identical(fu, tu) {
		return v
	}
	ex.unmodelled(fmt.Sprintf("convert %s -> %s (%T)", from, to, v))
	return nil
}

func (ex *Exec) typeAssert(fr *Frame, x *ssa.TypeAssert) Val {
	v := ex.get(fr, x.X)
	iv, ok := v.(IfaceV)
	if !ok {
		panic(engineErr(fmt.Sprintf("TypeAssert on %T", v)))
	}
	okv := false
	var res Val
	if iv.T != nil {
		if ai, isIface := x.AssertedType.Underlying().(*types.Interface); isIface {
			okv = ex.implements(iv, ai)
			res = iv
		} else {
			okv = types.Identical(iv.T, x.AssertedType)
			res = iv.V
		}
	}
	if x.CommaOk {
		if !okv {
			res = ex.zero(x.AssertedType)
		}
		return TupleV{res, ex.tf.Bool(okv)}
	}
	if !okv {
		tn := "nil"
		if iv.T != nil {
			tn = iv.T.String()
		}
		ex.goPanic("interface conversion: " + tn + " is not " + x.AssertedType.String())
	}
	return res
}

func (ex *Exec) implements(iv IfaceV, ai *types.Interface) bool {
	if iv.T == symxErrorType {
		// native errors implement `error` and nothing with more methods
		for i := 0; i < ai.NumMethods(); i++ {
			n := ai.Method(i).Name()
			if n != "Error" && n != "Unwrap" && n != "Is" {
				return false
			}
		}
		return true
	}
	if _, ok := iv.V.(NativeObj); ok {
		return true
	}
	return types.Implements(iv.T, ai) || (func() bool {
		// pointer receiver method sets
		return types.Implements(types.NewPointer(iv.T), ai) && false
	})()
}

// ---------- range ----------

type rangeIter struct {
	m    *MapObj
	keys []Val
	vals []Val
	str  []*Term
	i    int
}

func (ex *Exec) rangeStart(v Val) Val {
	switch x := v.(type) {
	case MapV:
		it := &rangeIter{}
		if x.M != nil {
			it.m = x.M
			it.keys = append([]Val{}, x.M.Keys...)
			it.vals = append([]Val{}, x.M.Vals...)
			if ex.mapOrder == "permute" && len(it.keys) > 1 {
				ex.permute(it)
			}
		}
		return it
	case StrV:
		return &rangeIter{str: ex.bytesOf(x)}
	}
	panic(engineErr(fmt.Sprintf("range over %T", v)))
}

// permute chooses a symbolic iteration order by forking (n! orders, n <= 4 enforced).
func (ex *Exec) permute(it *rangeIter) {
	n := len(it.keys)
	if n > ex.w.maxPermute {
		ex.noteInconcl(fmt.Sprintf("map with %d entries exceeds permutation bound at %s", n, ex.curPos()))
		return
	}
	ex.res.Covers["maprange@"+ex.curPos()] = true
	for i := 0; i < n-1; i++ {
		// choose which of the remaining goes to position i
		choice := ex.freshVar("perm", BVSort(8))
		pick := n - 1
		for j := i; j < n-1; j++ {
			if ex.Branch(ex.tf.Eq(choice, ex.tf.BVu(uint64(j), 8))) {
				pick = j
				break
			}
		}
		it.keys[i], it.keys[pick] = it.keys[pick], it.keys[i]
		it.vals[i], it.vals[pick] = it.vals[pick], it.vals[i]
	}
}

func (ex *Exec) rangeNext(fr *Frame, x *ssa.Next) Val {
	it := ex.get(fr, x.Iter).(*rangeIter)
	if x.IsString {
		if it.i >= len(it.str) {
			return TupleV{ex.tf.F, ex.tf.BVu(0, 64), ex.tf.BVu(0, 32)}
		}
		c := it.str[it.i]
		if !c.IsConst() {
			// assume ASCII for symbolic bytes: fork
			if !ex.Branch(ex.tf.BVUlt(c, ex.tf.BVu(128, 8))) {
				ex.unmodelled("range over string with non-ASCII symbolic byte")
			}
		} else if c.C.Cmp(big.NewInt(128)) >= 0 {
			ex.unmodelled("range over non-ASCII string")
		}
		i := it.i
		it.i++
		return TupleV{ex.tf.T, ex.tf.BVu(uint64(i), 64), ex.tf.ZExt(c, 32)}
	}
	for it.i < len(it.keys) {
		k, v := it.keys[it.i], it.vals[it.i]
		it.i++
		// entry may have been deleted during iteration; value may have been updated
		if it.m != nil {
			live := false
			for j, mk := range it.m.Keys {
				if ex.valEq(mk, k).IsTrue() {
					live = true
					v = it.m.Vals[j]
					break
				}
			}
			if !live {
				continue
			}
		}
		return TupleV{ex.tf.T, k, v}
	}
	tt := x.Type().(*types.Tuple)
	return TupleV{ex.tf.F, ex.zero(tt.At(1).Type()), ex.zero(tt.At(2).Type())}
}

// ---------- calls ----------

func (ex *Exec) call(fr *Frame, cc *ssa.CallCommon, site *ssa.Call) Val {
	args := make([]Val, 0, len(cc.Args)+1)
	if cc.IsInvoke() {
		recv := ex.get(fr, cc.Value)
		for _, a := range cc.Args {
			args = append(args, ex.get(fr, a))
		}
		return ex.invoke(recv, cc.Method, args, cc)
	}
	for _, a := range cc.Args {
		args = append(args, ex.get(fr, a))
	}
	switch f := cc.Value.(type) {
	case *ssa.Builtin:
		return ex.callBuiltin(f.Name(), args, cc)
	case *ssa.Function:
		if r, ok := ex.tryIntrinsic(f, args); ok {
			return r
		}
		return ex.callFunction(f, args)
	}
	fv := ex.get(fr, cc.Value)
	f, ok := fv.(FuncV)
	if !ok {
		panic(engineErr(fmt.Sprintf("call of %T", fv)))
	}
	if f.Fn != nil && f.Native == nil {
		if len(f.Bind) == 0 {
			if r, ok := ex.tryIntrinsic(f.Fn, args); ok {
				return r
			}
		}
	}
	return ex.callClosure(f, args)
}

// invoke: dynamic dispatch on an interface value.
func (ex *Exec) invoke(recv Val, m *types.Func, args []Val, cc *ssa.CallCommon) Val {
	iv, ok := recv.(IfaceV)
	if !ok {
		panic(engineErr(fmt.Sprintf("invoke on %T", recv)))
	}
	if iv.T == nil {
		ex.goPanic("nil pointer dereference (method " + m.Name() + " on nil interface)")
	}
	if r, ok := ex.nativeInvoke(iv, m, args); ok {
		return r
	}
	fn := ex.w.lookupMethod(iv.T, m)
	if fn == nil {
		ex.unmodelled(fmt.Sprintf("invoke %s on %s: no method", m.Name(), iv.T))
	}
	full := append([]Val{iv.V}, args...)
	if r, ok := ex.tryIntrinsic(fn, full); ok {
		return r
	}
	return ex.callFunction(fn, full)
}

func (w *World) lookupMethod(t types.Type, m *types.Func) *ssa.Function {
	sel := w.prog.MethodSets.MethodSet(t).Lookup(m.Pkg(), m.Name())
	if sel == nil {
		return nil
	}
	return w.prog.MethodValue(sel)
}

func (ex *Exec) callBuiltin(name string, args []Val, cc *ssa.CallCommon) Val {
	tf := ex.tf
	switch name {
	case "len":
		switch x := args[0].(type) {
		case StrV:
			if x.Opaque {
				ex.unmodelled("len of opaque string")
			}
			return tf.BVu(uint64(len(x.B)), 64)
		case SliceV:
			return tf.BVu(uint64(x.Len), 64)
		case MapV:
			if x.M == nil {
				return tf.BVu(0, 64)
			}
			return tf.BVu(uint64(len(x.M.Keys)), 64)
		case ArrayV:
			return tf.BVu(uint64(len(x.E)), 64)
		case PtrV:
			if cc != nil {
				if pt, ok := cc.Args[0].Type().Underlying().(*types.Pointer); ok {
					if at, ok := pt.Elem().Underlying().(*types.Array); ok {
						return tf.BVu(uint64(at.Len()), 64)
					}
				}
			}
		case BlobV:
			return ex.blobLen(x)
		}
	case "cap":
		switch x := args[0].(type) {
		case SliceV:
			return tf.BVu(uint64(x.Cap), 64)
		case ArrayV:
			return tf.BVu(uint64(len(x.E)), 64)
		}
	case "append":
		var s SliceV
		switch x := args[0].(type) {
		case SliceV:
			s = x
		case BlobV:
			ex.unmodelled("append to blob")
		}
		var add []Val
		switch y := args[1].(type) {
		case SliceV:
			add = ex.sliceElems(y)
		case StrV:
			for _, b := range ex.bytesOf(y) {
				add = append(add, b)
			}
		case BlobV:
			ex.unmodelled("append blob bytes")
		}
		if len(add) == 0 {
			return s
		}
		if !s.Nil && s.Len+len(add) <= s.Cap {
			// write in place into spare capacity
			for i, e := range add {
				ex.store(s.P.sub(s.Off+s.Len+i), e)
			}
			return SliceV{P: s.P, Off: s.Off, Len: s.Len + len(add), Cap: s.Cap}
		}
		old := ex.sliceElems(s)
		ne := make([]Val, 0, len(old)+len(add))
		ne = append(ne, old...)
		ne = append(ne, add...)
		ncap := len(ne)
		if ncap < 2*s.Cap {
			ncap = 2 * s.Cap
		}
		ns := ex.newSlice(ne, ncap)
		if ncap > len(ne) && cc != nil {
			z := ex.zero(cc.Args[0].Type().Underlying().(*types.Slice).Elem())
			arr := ns.P.C.V.(ArrayV)
			for i := len(ne); i < ncap; i++ {
				arr.E[i] = z
			}
		}
		return ns
	case "copy":
		dst := args[0].(SliceV)
		var src []Val
		switch y := args[1].(type) {
		case SliceV:
			src = append([]Val{}, ex.sliceElems(y)...)
		case StrV:
			for _, b := range ex.bytesOf(y) {
				src = append(src, b)
			}
		}
		n := dst.Len
		if len(src) < n {
			n = len(src)
		}
		for i := 0; i < n; i++ {
			ex.store(dst.P.sub(dst.Off+i), src[i])
		}
		return tf.BVu(uint64(n), 64)
	case "delete":
		m := args[0].(MapV)
		if m.M != nil {
			ex.mapDelete(m.M, args[1])
		}
		return nil
	case "print", "println":
		return nil
	case "recover":
		return ex.doRecover()
	case "min", "max":
		acc := args[0].(*Term)
		signed := cc != nil && isSigned(cc.Args[0].Type())
		for _, a := range args[1:] {
			y := a.(*Term)
			var lt *Term
			if signed {
				lt = tf.BVSlt(y, acc)
			} else {
				lt = tf.BVUlt(y, acc)
			}
			if name == "min" {
				acc = tf.Ite(lt, y, acc)
			} else {
				acc = tf.Ite(lt, acc, y)
			}
		}
		return acc
	case "ssa:wrapnilchk":
		if p, ok := args[0].(PtrV); ok && p.C == nil {
			ex.goPanic("nil pointer dereference (wrapnilchk)")
		}
		return args[0]
	case "clear":
		switch x := args[0].(type) {
		case MapV:
			if x.M != nil {
				x.M.Keys, x.M.Vals = nil, nil
			}
			return nil
		}
	}
	ex.unmodelled("builtin " + name)
	return nil
}

func (ex *Exec) doRecover() Val {
	// recover only works when called directly by a deferred function while panicking
	if ex.curPanic == nil || len(ex.recoverOwner) == 0 {
		return IfaceV{}
	}
	p := ex.curPanic
	owner := ex.recoverOwner[len(ex.recoverOwner)-1]
	owner.panicIn = nil
	ex.curPanic = nil
	if p.val != nil {
		return p.val
	}
	// runtime panic: runtime.Error value
	return IfaceV{T: symxErrorType, V: &ErrV{Root: "runtime", Msg: p.msg}}
}
