package main

// Concrete evaluation of terms under a model (assignment of the declared variables). Used to
// decide branch feasibility without a solver call: if the current model satisfies a condition,
// that side of the branch is feasible.

import (
	"math/big"
)

type FreshDef struct {
	Kind string // "tq","tr" truncated quotient/remainder; "eq","em" euclidean quotient / modulus
	A, B *Term
}

type Model struct {
	V map[string]*big.Int
}

type evaluator struct {
	ex   *Exec
	m    *Model
	memo map[int]*big.Int
	fail bool
}

func bbool(b bool) *big.Int {
	if b {
		return big.NewInt(1)
	}
	return big.NewInt(0)
}

// evalTerm returns (value, ok). Bool values are 0/1, BV values unsigned.
func (ex *Exec) evalTerm(t *Term, m *Model) (*big.Int, bool) {
	ev := &evaluator{ex: ex, m: m, memo: map[int]*big.Int{}}
	v := ev.eval(t)
	if ev.fail || v == nil {
		return nil, false
	}
	return v, true
}

func (ev *evaluator) eval(t *Term) *big.Int {
	if ev.fail {
		return nil
	}
	if t.Op == "const" {
		return t.C
	}
	if v, ok := ev.memo[t.ID]; ok {
		return v
	}
	v := ev.eval1(t)
	if v == nil {
		ev.fail = true
		return nil
	}
	ev.memo[t.ID] = v
	return v
}

func (ev *evaluator) eval1(t *Term) *big.Int {
	if t.Op == "var" {
		if v, ok := ev.m.V[t.Name]; ok {
			return v
		}
		if d, ok := ev.ex.freshDefs[t.Name]; ok {
			a, b := ev.eval(d.A), ev.eval(d.B)
			if a == nil || b == nil || b.Sign() == 0 {
				return nil
			}
			var v *big.Int
			switch d.Kind {
			case "tq":
				v = new(big.Int).Quo(a, b)
			case "tr":
				v = new(big.Int).Rem(a, b)
			case "eq":
				v = new(big.Int).Div(a, b)
			case "em":
				v = new(big.Int).Mod(a, b)
			}
			ev.m.V[t.Name] = v
			return v
		}
		return nil
	}
	args := make([]*big.Int, len(t.Args))
	// ite: evaluate lazily
	if t.Op == "ite" {
		c := ev.eval(t.Args[0])
		if c == nil {
			return nil
		}
		if c.Sign() != 0 {
			return ev.eval(t.Args[1])
		}
		return ev.eval(t.Args[2])
	}
	if t.Op == "and" || t.Op == "or" {
		isAnd := t.Op == "and"
		for _, a := range t.Args {
			v := ev.eval(a)
			if v == nil {
				return nil
			}
			if isAnd && v.Sign() == 0 {
				return bbool(false)
			}
			if !isAnd && v.Sign() != 0 {
				return bbool(true)
			}
		}
		return bbool(isAnd)
	}
	for i, a := range t.Args {
		args[i] = ev.eval(a)
		if args[i] == nil {
			return nil
		}
	}
	w := t.Sort.W
	r := new(big.Int)
	switch t.Op {
	case "not":
		return bbool(args[0].Sign() == 0)
	case "=":
		return bbool(args[0].Cmp(args[1]) == 0)
	case "+":
		return r.Add(args[0], args[1])
	case "-":
		if len(args) == 1 {
			return r.Neg(args[0])
		}
		return r.Sub(args[0], args[1])
	case "*":
		return r.Mul(args[0], args[1])
	case "<=":
		return bbool(args[0].Cmp(args[1]) <= 0)
	case "<":
		return bbool(args[0].Cmp(args[1]) < 0)
	case "div":
		if args[1].Sign() == 0 {
			return nil
		}
		return r.Div(args[0], args[1])
	case "mod":
		if args[1].Sign() == 0 {
			return nil
		}
		return r.Mod(args[0], args[1])
	case "bv2nat":
		return args[0]
	case "int2bv":
		return r.And(args[0], mask(t.P1))
	case "bvadd":
		return r.And(r.Add(args[0], args[1]), mask(w))
	case "bvsub":
		return r.And(r.Sub(args[0], args[1]), mask(w))
	case "bvmul":
		return r.And(r.Mul(args[0], args[1]), mask(w))
	case "bvand":
		return r.And(args[0], args[1])
	case "bvor":
		return r.Or(args[0], args[1])
	case "bvxor":
		return r.Xor(args[0], args[1])
	case "bvnot":
		return r.Xor(args[0], mask(w))
	case "bvneg":
		return r.And(r.Neg(args[0]), mask(w))
	case "bvudiv":
		if args[1].Sign() == 0 {
			return new(big.Int).Set(mask(w))
		}
		return r.Quo(args[0], args[1])
	case "bvurem":
		if args[1].Sign() == 0 {
			return args[0]
		}
		return r.Rem(args[0], args[1])
	case "bvsdiv":
		if args[1].Sign() == 0 {
			return nil
		}
		return r.And(r.Quo(signedOf(args[0], w), signedOf(args[1], w)), mask(w))
	case "bvsrem":
		if args[1].Sign() == 0 {
			return nil
		}
		return r.And(r.Rem(signedOf(args[0], w), signedOf(args[1], w)), mask(w))
	case "bvshl":
		if args[1].Cmp(big.NewInt(int64(w))) >= 0 {
			return big.NewInt(0)
		}
		return r.And(r.Lsh(args[0], uint(args[1].Uint64())), mask(w))
	case "bvlshr":
		if args[1].Cmp(big.NewInt(int64(w))) >= 0 {
			return big.NewInt(0)
		}
		return r.Rsh(args[0], uint(args[1].Uint64()))
	case "bvashr":
		sx := signedOf(args[0], w)
		sh := uint(w)
		if args[1].Cmp(big.NewInt(int64(w))) < 0 {
			sh = uint(args[1].Uint64())
		}
		return r.And(r.Rsh(sx, sh), mask(w))
	case "bvult":
		return bbool(args[0].Cmp(args[1]) < 0)
	case "bvule":
		return bbool(args[0].Cmp(args[1]) <= 0)
	case "bvslt":
		aw := t.Args[0].Sort.W
		return bbool(signedOf(args[0], aw).Cmp(signedOf(args[1], aw)) < 0)
	case "bvsle":
		aw := t.Args[0].Sort.W
		return bbool(signedOf(args[0], aw).Cmp(signedOf(args[1], aw)) <= 0)
	case "extract":
		v := new(big.Int).Rsh(args[0], uint(t.P2))
		return v.And(v, mask(t.P1-t.P2+1))
	case "zero_extend":
		return args[0]
	case "sign_extend":
		aw := t.Args[0].Sort.W
		return r.And(signedOf(args[0], aw), mask(w))
	case "concat":
		v := new(big.Int).Lsh(args[0], uint(t.Args[1].Sort.W))
		return v.Or(v, args[1])
	}
	return nil
}
