package main

import (
	"encoding/json"
	"fmt"
	"os"
	"path/filepath"
	"sort"
	"strings"
	"sync"
	"time"

	"golang.org/x/tools/go/packages"
	"golang.org/x/tools/go/ssa"
	"golang.org/x/tools/go/ssa/ssautil"
)

const repoPath = "github.com/ExocoreNetwork/exocore"

type TierCfg struct {
	Unwind      int            `json:"unwind"`
	Params      map[string]int `json:"params"`
	MaxPaths    int            `json:"max_paths"`
	TimeoutS    int            `json:"timeout_s"`
	SolverMs    int            `json:"solver_ms"`
	MaxInstrs   int            `json:"max_instrs"`
	PathTimeout int            `json:"path_timeout_s"`
	Skip        bool           `json:"skip"`
}

type HarnessSpec struct {
	Name   string             `json:"name"`
	Pkg    string             `json:"pkg"`  // repo-relative package dir, e.g. x/delegation/keeper
	Func   string             `json:"func"` // function name in that package
	Doc    string             `json:"doc"`
	Bounds string             `json:"bounds"`
	Tiers  map[string]TierCfg `json:"tiers"`
	// ExpectCovers: verifrt.Cover labels that some path must reach (reachability witnesses: the
	// accepting side of an authorisation check etc.); a missing one is reported as inconclusive.
	ExpectCovers []string `json:"expect_covers"`
}

type Spec struct {
	Property    string        `json:"property"`
	Files       []SpecFile    `json:"files"` // harness source files: {src (relative to spec dir), pkg}
	Harnesses   []HarnessSpec `json:"harnesses"`
	Assumptions []string      `json:"assumptions"`
	Trusted     []string      `json:"trusted_base"`
	Outside     []string      `json:"outside"`
}

type SpecFile struct {
	Src string `json:"src"`
	Pkg string `json:"pkg"`
}

type Harness struct {
	Name        string
	Spec        HarnessSpec
	Fn          *ssa.Function
	Unwind      int
	MaxInstrs   int
	MaxPaths    int
	Timeout     time.Duration
	PathTimeout time.Duration
	Params      map[string]int
}

type World struct {
	prog       *ssa.Program
	pkgs       map[string]*ssa.Package
	debug      bool
	nativeDiv  bool
	maxPermute int
	witnesses  int
	known      map[string]bool
	solverBin  string
	solverMs   int
	feasMs     int
	methodIdx  sync.Map
}

type Worker struct {
	id        int
	tf        *TermFactory
	solver    *Solver
	wit       *witnessBook
	initCache map[*ssa.Package]map[*ssa.Global]Val
}

type witnessBook struct {
	mu    sync.Mutex
	got   map[string]int
	limit int
}

// WitnessRec: a model of one completed path plus the verifrt.Cover labels that path reached.
type WitnessRec struct {
	Model  map[string]string `json:"model"`
	Covers []string          `json:"covers,omitempty"`
}

func (wk *Worker) needWitness(h string) bool {
	wk.wit.mu.Lock()
	defer wk.wit.mu.Unlock()
	return wk.wit.got[h] < wk.wit.limit
}
func (wk *Worker) gotWitness(h string) {
	wk.wit.mu.Lock()
	defer wk.wit.mu.Unlock()
	wk.wit.got[h]++
}

// Overlay builds the overlay map: verifrt package + harness files of the spec.
func buildOverlay(verifDir, specDir string, spec *Spec) (map[string][]byte, []string, error) {
	ov := map[string][]byte{}
	for _, shared := range []string{"verifrt", "verifenv"} {
		files, _ := filepath.Glob(filepath.Join(verifDir, shared, "*.go"))
		for _, e := range files {
			b, err := os.ReadFile(e)
			if err != nil {
				return nil, nil, err
			}
			ov[repoRoot+"/"+shared+"/"+filepath.Base(e)] = b
		}
	}
	pkgset := map[string]bool{"./verifrt": true}
	for _, f := range spec.Files {
		b, err := os.ReadFile(filepath.Join(specDir, f.Src))
		if err != nil {
			return nil, nil, err
		}
		ov[filepath.Join(repoRoot, f.Pkg, "zz_verif_"+filepath.Base(f.Src))] = b
		pkgset["./"+f.Pkg] = true
	}
	var pats []string
	for p := range pkgset {
		pats = append(pats, p)
	}
	sort.Strings(pats)
	return ov, pats, nil
}

var depSyntaxPkgs = []string{
	"github.com/cosmos/cosmos-sdk/types",
}

func LoadWorld(overlay map[string][]byte, patterns []string) (*World, error) {
	env := append(os.Environ(), "GOFLAGS=-mod=mod", "GOPROXY=off", "GOSUMDB=off", "GOTOOLCHAIN=local")
	// phase 1: repo-internal import closure of the harness packages
	cfg1 := &packages.Config{Mode: packages.NeedName | packages.NeedImports | packages.NeedDeps, Dir: repoRoot, Env: env,
		BuildFlags: []string{"-tags=verif"}, Overlay: overlay}
	p1, err := packages.Load(cfg1, patterns...)
	if err != nil {
		return nil, err
	}
	closure := map[string]bool{}
	packages.Visit(p1, nil, func(p *packages.Package) {
		if strings.HasPrefix(p.PkgPath, repoPath) {
			closure[p.PkgPath] = true
		}
	})
	var pats []string
	for p := range closure {
		pats = append(pats, p)
	}
	// dependency packages whose real source is executed too (instead of intrinsics)
	pats = append(pats, depSyntaxPkgs...)
	sort.Strings(pats)
	cfg := &packages.Config{
		Mode: packages.NeedName | packages.NeedFiles | packages.NeedCompiledGoFiles | packages.NeedImports |
			packages.NeedTypes | packages.NeedTypesSizes | packages.NeedSyntax | packages.NeedTypesInfo,
		Dir: repoRoot, Env: env, BuildFlags: []string{"-tags=verif"}, Overlay: overlay,
	}
	pkgs, err := packages.Load(cfg, pats...)
	if err != nil {
		return nil, err
	}
	nerr := 0
	for _, p := range pkgs {
		for _, e := range p.Errors {
			fmt.Fprintln(os.Stderr, "LOAD ERROR:", e)
			nerr++
		}
	}
	if nerr > 0 {
		return nil, fmt.Errorf("%d package load errors", nerr)
	}
	prog, spkgs := ssautil.Packages(pkgs, ssa.InstantiateGenerics)
	w := &World{prog: prog, pkgs: map[string]*ssa.Package{}, maxPermute: 4}
	for _, p := range spkgs {
		if p != nil {
			p.Build()
		}
	}
	for _, p := range prog.AllPackages() {
		w.pkgs[p.Pkg.Path()] = p
	}
	return w, nil
}

func (w *World) findHarness(hs HarnessSpec, tier string) (*Harness, error) {
	pp := repoPath + "/" + hs.Pkg
	p := w.pkgs[pp]
	if p == nil {
		return nil, fmt.Errorf("package %s not loaded", pp)
	}
	fn := p.Func(hs.Func)
	if fn == nil {
		return nil, fmt.Errorf("harness function %s not found in %s", hs.Func, pp)
	}
	tc := hs.Tiers[tier]
	if _, ok := hs.Tiers[tier]; !ok {
		tc = hs.Tiers["quick"]
	}
	h := &Harness{Name: hs.Name, Spec: hs, Fn: fn, Unwind: 64, MaxInstrs: 20_000_000, MaxPaths: 200000,
		Timeout: 10 * time.Minute, Params: tc.Params}
	if tc.Unwind > 0 {
		h.Unwind = tc.Unwind
	}
	if tc.MaxPaths > 0 {
		h.MaxPaths = tc.MaxPaths
	}
	if tc.TimeoutS > 0 {
		h.Timeout = time.Duration(tc.TimeoutS) * time.Second
	}
	if tc.MaxInstrs > 0 {
		h.MaxInstrs = tc.MaxInstrs
	}
	if tc.PathTimeout > 0 {
		h.PathTimeout = time.Duration(tc.PathTimeout) * time.Second
	}
	return h, nil
}

// ---------- exploration ----------

type HarnessResult struct {
	Name        string         `json:"name"`
	Doc         string         `json:"doc"`
	Bounds      string         `json:"bounds"`
	Params      map[string]int `json:"params"`
	Paths       int            `json:"paths"`
	Completed   int            `json:"completed_paths"`
	Ends        map[string]int `json:"path_ends"`
	Instrs      int            `json:"ssa_instructions"`
	Obligations int            `json:"obligations"`
	Discharged  int            `json:"discharged"`
	Reached     map[string]int `json:"assert_reached"`
	Violations  []Violation    `json:"violations"`
	Inconcl     []string       `json:"inconclusive"`
	Witnesses   []WitnessRec   `json:"witnesses,omitempty"`
	PCSample    string         `json:"pc_sample,omitempty"`
	Covers      []string       `json:"covers,omitempty"`
	Funcs       []string       `json:"functions_encoded"`
	Intrinsics  []string       `json:"intrinsics_used"`
	WallS       float64        `json:"wall_s"`
	PanicEnds   map[string]int `json:"panic_ends,omitempty"`
	FeasUnknown int            `json:"feasibility_unknown_both_sides_explored"`
}

type RunResult struct {
	Property    string           `json:"property"`
	Tier        string           `json:"tier"`
	Harnesses   []*HarnessResult `json:"harnesses"`
	SolverQ     int              `json:"solver_queries"`
	SolverSat   int              `json:"solver_sat"`
	SolverUnsat int              `json:"solver_unsat"`
	SolverUnk   int              `json:"solver_unknown"`
	SolverS     float64          `json:"solver_seconds"`
	Fallbacks   int              `json:"one_shot_fallbacks"`
	WallS       float64          `json:"wall_s"`
	Solver      string           `json:"solver"`
	LoadS       float64          `json:"load_s"`
}

type workItem struct {
	h      *Harness
	prefix []Decision
	model  map[string]string
}

func (w *World) Explore(hs []*Harness, nworkers int) *RunResult {
	t0 := time.Now()
	rr := &RunResult{Solver: w.solverBin}
	results := map[string]*HarnessResult{}
	funcs := map[string]map[string]bool{}
	intr := map[string]map[string]int{}
	covers := map[string]map[string]bool{}
	started := map[string]time.Time{}
	deadline := map[string]time.Time{}
	for _, h := range hs {
		results[h.Name] = &HarnessResult{Name: h.Name, Doc: h.Spec.Doc, Bounds: h.Spec.Bounds, Params: h.Params,
			Ends: map[string]int{}, Reached: map[string]int{}, PanicEnds: map[string]int{}}
		funcs[h.Name] = map[string]bool{}
		intr[h.Name] = map[string]int{}
		covers[h.Name] = map[string]bool{}
		rr.Harnesses = append(rr.Harnesses, results[h.Name])
	}
	var mu sync.Mutex
	cond := sync.NewCond(&mu)
	// one LIFO stack per harness, served round-robin: a harness with very many paths cannot
	// starve the others (whose time budget runs from their first path)
	stacks := map[string][]workItem{}
	order := make([]string, 0, len(hs))
	for _, h := range hs {
		stacks[h.Name] = []workItem{{h, nil, nil}}
		order = append(order, h.Name)
	}
	rrNext := 0
	pending := func() int {
		n := 0
		for _, st := range stacks {
			n += len(st)
		}
		return n
	}
	pop := func() workItem {
		for k := 0; k < len(order); k++ {
			name := order[(rrNext+k)%len(order)]
			if st := stacks[name]; len(st) > 0 {
				it := st[len(st)-1]
				stacks[name] = st[:len(st)-1]
				rrNext = (rrNext + k + 1) % len(order)
				return it
			}
		}
		panic("pop on empty work list")
	}
	active := 0
	wit := &witnessBook{got: map[string]int{}, limit: w.witnesses}
	var wg sync.WaitGroup
	violSeen := map[string]bool{}
	for i := 0; i < nworkers; i++ {
		wg.Add(1)
		go func(id int) {
			defer wg.Done()
			s, err := NewSolver(w.solverBin, w.solverMs)
			if err == nil {
				s.feasMs = w.feasMs
			}
			if err != nil {
				fmt.Fprintln(os.Stderr, "cannot start solver:", err)
				return
			}
			wk := &Worker{id: id, tf: NewTermFactory(), solver: s, wit: wit, initCache: map[*ssa.Package]map[*ssa.Global]Val{}}
			defer func() {
				mu.Lock()
				rr.SolverQ += s.Queries
				rr.SolverSat += s.Sat
				rr.SolverUnsat += s.Unsat
				rr.SolverUnk += s.Unknown
				rr.SolverS += s.Time.Seconds()
				rr.Fallbacks += s.Fallbacks
				mu.Unlock()
				s.Close()
			}()
			for {
				mu.Lock()
				for pending() == 0 && active > 0 {
					cond.Wait()
				}
				if pending() == 0 && active == 0 {
					mu.Unlock()
					cond.Broadcast()
					return
				}
				it := pop()
				hr := results[it.h.Name]
				if _, ok := started[it.h.Name]; !ok {
					started[it.h.Name] = time.Now()
					deadline[it.h.Name] = time.Now().Add(it.h.Timeout)
				}
				skip := ""
				if hr.Paths >= it.h.MaxPaths {
					skip = fmt.Sprintf("path budget %d exhausted", it.h.MaxPaths)
				} else if time.Now().After(deadline[it.h.Name]) {
					skip = fmt.Sprintf("time budget %s exhausted", it.h.Timeout)
				}
				if skip != "" {
					addUnique(&hr.Inconcl, skip)
					mu.Unlock()
					continue
				}
				hr.Paths++
				active++
				mu.Unlock()

				pr := w.RunPath(wk, it.h, it.prefix, it.model)

				mu.Lock()
				active--
				hr.Ends[pr.End]++
				if pr.End == "completed" {
					hr.Completed++
				}
				if pr.End == "panic" {
					hr.PanicEnds[pr.Detail]++
				}
				hr.Instrs += pr.Instrs
				hr.FeasUnknown += pr.FeasUnknown
				hr.Obligations += pr.Obligations
				hr.Discharged += pr.Discharged
				for k, v := range pr.Reached {
					hr.Reached[k] += v
				}
				for _, v := range pr.Violations {
					key := it.h.Name + "|" + v.Label + "|" + v.Pos
					if !violSeen[key] {
						violSeen[key] = true
						hr.Violations = append(hr.Violations, v)
					}
				}
				for _, s := range pr.Inconcl {
					addUnique(&hr.Inconcl, s)
				}
				if pr.Witness != nil {
					var cv []string
					for c := range pr.Covers {
						if !strings.HasPrefix(c, "maprange@") && !strings.HasPrefix(c, "wall-clock") {
							cv = append(cv, c)
						}
					}
					sort.Strings(cv)
					hr.Witnesses = append(hr.Witnesses, WitnessRec{Model: pr.Witness, Covers: cv})
				}
				if pr.Witness != nil && hr.PCSample == "" {
					hr.PCSample = pr.PCSample
				}
				for f := range pr.Funcs {
					funcs[it.h.Name][f] = true
				}
				for k, v := range pr.Intrinsics {
					intr[it.h.Name][k] += v
				}
				for k := range pr.Covers {
					covers[it.h.Name][k] = true
				}
				for _, p := range pr.Pending {
					stacks[it.h.Name] = append(stacks[it.h.Name], workItem{it.h, p.Log, p.Model})
				}
				hr.WallS = time.Since(started[it.h.Name]).Seconds()
				mu.Unlock()
				cond.Broadcast()
			}
		}(i)
	}
	wg.Wait()
	for _, h := range hs {
		hr := results[h.Name]
		hr.Funcs = sortedKeys(funcs[h.Name])
		hr.Intrinsics = sortedKeys(intr[h.Name])
		hr.Covers = sortedKeys(covers[h.Name])
	}
	rr.WallS = time.Since(t0).Seconds()
	return rr
}

func addUnique(l *[]string, s string) {
	for _, x := range *l {
		if x == s {
			return
		}
	}
	if len(*l) < 40 {
		*l = append(*l, s)
	}
}

func writeJSON(path string, v interface{}) error {
	b, err := json.MarshalIndent(v, "", " ")
	if err != nil {
		return err
	}
	return os.WriteFile(path, b, 0o644)
}
