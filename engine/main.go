package main

import (
	"encoding/hex"
	"encoding/json"
	"flag"
	"fmt"
	"os"
	"path/filepath"
	"runtime"
	"runtime/pprof"
	"strings"
	"time"
)

// repoRoot: the tree under test (default /repo; SYMX_REPO points the engine at a scratch
// worktree, used only for experiments such as re-validating a finding on the unfixed code)
var repoRoot = func() string {
	if v := os.Getenv("SYMX_REPO"); v != "" {
		return v
	}
	return "/repo"
}()

func main() {
	if len(os.Args) < 2 {
		fmt.Println("usage: symx run|check ...")
		os.Exit(2)
	}
	switch os.Args[1] {
	case "run":
		cmdRun(os.Args[2:])
	case "bech32":
		for _, h := range os.Args[3:] {
			b, _ := hex.DecodeString(h)
			fmt.Println(h, bech32Encode(os.Args[2], b))
		}
	case "check":
		os.Exit(cmdCheck(os.Args[2:]))
	case "replay":
		os.Exit(cmdReplay(os.Args[2:]))
	default:
		fmt.Println("unknown command")
		os.Exit(2)
	}
}

func verifDir() string {
	if d := os.Getenv("VERIF_DIR"); d != "" {
		return d
	}
	return "/verif"
}

type runOpts struct {
	spec     string
	tier     string
	out      string
	only     string
	workers  int
	debug    bool
	solver   string
	solverMs int
	maxPaths int
}

func loadSpec(path string) (*Spec, error) {
	b, err := os.ReadFile(path)
	if err != nil {
		return nil, err
	}
	var s Spec
	if err := json.Unmarshal(b, &s); err != nil {
		return nil, fmt.Errorf("%s: %w", path, err)
	}
	return &s, nil
}

func runSpec(o runOpts) (*RunResult, *Spec, error) {
	spec, err := loadSpec(o.spec)
	if err != nil {
		return nil, nil, err
	}
	t0 := time.Now()
	ov, pats, err := buildOverlay(verifDir(), filepath.Dir(o.spec), spec)
	if err != nil {
		return nil, spec, err
	}
	w, err := LoadWorld(ov, pats)
	if err != nil {
		return nil, spec, err
	}
	loadS := time.Since(t0).Seconds()
	w.debug = o.debug
	w.solverBin = o.solver
	w.solverMs = o.solverMs
	w.feasMs = 3000
	if v := os.Getenv("SYMX_FEAS_MS"); v != "" {
		fmt.Sscanf(v, "%d", &w.feasMs)
	}
	w.nativeDiv = os.Getenv("SYMX_NATIVE_DIV") == "1"
	// completed paths whose witness model is replayed natively (translator validation)
	w.witnesses = 8
	if o.tier == "thorough" {
		w.witnesses = 48
	}
	if v := os.Getenv("SYMX_WITNESSES"); v != "" {
		fmt.Sscanf(v, "%d", &w.witnesses)
	}
	w.known = loadKnown(spec.Property)
	var hs []*Harness
	for _, h := range spec.Harnesses {
		if o.only != "" && !strings.Contains(h.Name, o.only) {
			continue
		}
		if tc, ok := h.Tiers[o.tier]; ok && tc.Skip {
			continue
		}
		hh, err := w.findHarness(h, o.tier)
		if err != nil {
			return nil, spec, err
		}
		if tc, ok := h.Tiers[o.tier]; ok && tc.SolverMs > 0 && tc.SolverMs > w.solverMs {
			w.solverMs = tc.SolverMs
		}
		if o.maxPaths > 0 {
			hh.MaxPaths = o.maxPaths
		}
		hs = append(hs, hh)
	}
	rr := w.Explore(hs, o.workers)
	rr.Property = spec.Property
	rr.Tier = o.tier
	rr.LoadS = loadS
	return rr, spec, nil
}

func cmdRun(args []string) {
	if pf := os.Getenv("SYMX_CPUPROFILE"); pf != "" {
		f, _ := os.Create(pf)
		pprof.StartCPUProfile(f)
		defer pprof.StopCPUProfile()
	}
	fs := flag.NewFlagSet("run", flag.ExitOnError)
	var o runOpts
	fs.StringVar(&o.spec, "spec", "", "spec.json")
	fs.StringVar(&o.tier, "tier", "quick", "tier")
	fs.StringVar(&o.out, "out", "", "result json")
	fs.StringVar(&o.only, "only", "", "only harnesses containing this")
	fs.IntVar(&o.workers, "workers", runtime.NumCPU(), "workers")
	fs.BoolVar(&o.debug, "debug", false, "debug")
	fs.StringVar(&o.solver, "solver", "z3-new", "solver binary")
	fs.IntVar(&o.solverMs, "solver-ms", 20000, "per-query timeout")
	fs.IntVar(&o.maxPaths, "max-paths", 0, "cap on paths per harness (debug)")
	fs.Parse(args)
	rr, _, err := runSpec(o)
	if err != nil {
		fmt.Fprintln(os.Stderr, "ERROR:", err)
		os.Exit(2)
	}
	if o.out != "" {
		writeJSON(o.out, rr)
	}
	printSummary(rr)
}

func printSummary(rr *RunResult) {
	for _, h := range rr.Harnesses {
		fmt.Printf("%-40s paths=%d completed=%d obligations=%d discharged=%d violations=%d inconclusive=%d ends=%v %.1fs\n",
			h.Name, h.Paths, h.Completed, h.Obligations, h.Discharged, len(h.Violations), len(h.Inconcl), h.Ends, h.WallS)
		for _, v := range h.Violations {
			fmt.Printf("   VIOL %s [%s] at %s model=%v\n", v.Label, v.Kind, v.Pos, v.Model)
		}
		for _, s := range h.Inconcl {
			fmt.Printf("   INCONCLUSIVE %s\n", s)
		}
	}
	fmt.Printf("solver: %d queries (%d sat, %d unsat, %d unknown, %d one-shot retries) %.1fs; load %.1fs wall %.1fs\n",
		rr.SolverQ, rr.SolverSat, rr.SolverUnsat, rr.SolverUnk, rr.Fallbacks, rr.SolverS, rr.LoadS, rr.WallS)
}
