package main

// Environment model: sdk.Context, KV stores, codec, bank. (filled in env_store.go)

type EnvState struct {
	ex *Exec
}

func newEnvState(ex *Exec) *EnvState { return &EnvState{ex: ex} }

type CtxV struct {
	ms       *MultiStore
	height   *Term
	time     *Term
	chainID  string
	checkTx  bool
	recheck  bool
	simulate bool
	values   map[string]Val
	extra    map[string]Val
}

type MultiStore struct {
	stores map[string]*Store
	parent *MultiStore
}

type Store struct {
	entries []storeEntry
}

type storeEntry struct {
	key []*Term
	val Val
}

func (ex *Exec) blobLen(b BlobV) Val {
	// length of marshalled bytes is not modelled precisely: non-empty
	return ex.tf.BVu(1, 64)
}
