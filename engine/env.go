package main

// Environment model: sdk.Context, KV stores (ordered maps over symbolic byte keys), codec as
// identity on typed values (with the gogoproto round-trip normalisation), logger / events / gas.

import (
	"fmt"
	"go/types"
	"math/big"
	"sort"
)

var nativeType = types.NewNamed(types.NewTypeName(0, nil, "symxNative", nil), types.NewStruct(nil, nil), nil)

func nativeIface(o interface{}) IfaceV { return IfaceV{T: nativeType, V: o} }

type EnvState struct {
	ex        *Exec
	storeKeys map[string]*StoreKeyObj
	root      *MultiStore
	rootUsed  bool
}

func newEnvState(ex *Exec) *EnvState {
	return &EnvState{ex: ex, storeKeys: map[string]*StoreKeyObj{}, root: &MultiStore{stores: map[string]*Store{}}}
}

// freshMS: the first context uses the root multistore; every further NewContext gets its own
// empty multistore (natively each NewContext builds a new in-memory database).
func (e *EnvState) freshMS() *MultiStore {
	if !e.rootUsed {
		e.rootUsed = true
		return e.root
	}
	return &MultiStore{stores: map[string]*Store{}}
}

type StoreKeyObj struct{ Name string }

func (k *StoreKeyObj) Invoke(ex *Exec, m string, a []Val) Val {
	switch m {
	case "Name":
		return ex.mkStr(k.Name)
	case "String":
		return ex.mkStr("KVStoreKey{" + k.Name + "}")
	}
	ex.unmodelled("StoreKey." + m)
	return nil
}

type CtxV struct {
	ms       *MultiStore
	height   *Term // BV64
	time     *Term // BV64 nanos since Unix epoch
	chainID  string
	checkTx  bool
	recheck  bool
	txBytes  Val
	gas      *GasMeterObj
	blockGas *GasMeterObj
	priority *Term
	values   []ctxKV
	minGas   Val
	events   *EventMgrObj
	header   Val
}

type ctxKV struct{ k, v Val }

// MultiStore: a root multistore holds the data; a cache multistore (CacheContext) is a
// write-back layer over its parent: reads fall through to the parent's *current* contents for
// keys the layer has not written or deleted, Write() applies the layer's operations to the parent
// in order (cachekv semantics, including writes made to the parent while the layer is live).
type MultiStore struct {
	stores map[string]*Store
	parent *MultiStore
}

func (ms *MultiStore) get(name string) *Store {
	s, ok := ms.stores[name]
	if !ok {
		s = &Store{}
		if ms.parent != nil {
			s.parent = ms.parent.get(name)
			s.viewVer = -1
		}
		ms.stores[name] = s
	}
	return s
}

// snapshot: a detached root copy of the current effective contents.
func (ms *MultiStore) snapshot(ex *Exec) *MultiStore {
	n := &MultiStore{stores: map[string]*Store{}}
	for m := ms; m != nil; m = m.parent {
		for k := range m.stores {
			if _, done := n.stores[k]; !done {
				n.stores[k] = &Store{entries: append([]storeEntry{}, ms.get(k).view(ex)...)}
			}
		}
	}
	return n
}

// layer: a new cache layer over ms.
func (ms *MultiStore) layer() *MultiStore {
	return &MultiStore{stores: map[string]*Store{}, parent: ms}
}

// write applies every store's pending operations to the parent layer and clears them.
func (ms *MultiStore) write(ex *Exec) {
	if ms.parent == nil {
		return
	}
	names := make([]string, 0, len(ms.stores))
	for k := range ms.stores {
		names = append(names, k)
	}
	sort.Strings(names)
	for _, k := range names {
		s := ms.stores[k]
		for _, op := range s.ops {
			if op.del {
				s.parent.del(ex, op.key)
			} else {
				s.parent.put(ex, op.key, op.val)
			}
		}
		s.ops = nil
		s.viewVer = -1
	}
}

type storeOp struct {
	key []*Term
	val Val
	del bool
}

type Store struct {
	entries []storeEntry // root: the data; layer: materialised view (valid while viewVer == parent.version())
	parent  *Store
	ops     []storeOp // layer only: writes and deletes since creation / the last Write, in order
	ver     int       // bumped on every mutation of this layer
	viewVer int
}

func (st *Store) version() int {
	if st.parent == nil {
		return st.ver
	}
	return st.ver + st.parent.version()
}

// view returns the effective entries (pairwise distinct keys under the path condition).
func (st *Store) view(ex *Exec) []storeEntry {
	if st.parent == nil {
		return st.entries
	}
	if pv := st.parent.version(); st.viewVer != pv {
		cur := append([]storeEntry{}, st.parent.view(ex)...)
		for _, op := range st.ops {
			i := findEntry(ex, cur, op.key)
			switch {
			case op.del && i >= 0:
				cur = append(cur[:i:i], cur[i+1:]...)
			case !op.del && i >= 0:
				cur[i] = storeEntry{key: op.key, val: op.val}
			case !op.del:
				cur = append(cur, storeEntry{key: op.key, val: op.val})
			}
		}
		st.entries = cur
		st.viewVer = st.parent.version()
	}
	return st.entries
}

func findEntry(ex *Exec, es []storeEntry, key []*Term) int {
	for i := range es {
		if len(es[i].key) != len(key) {
			continue
		}
		if ex.Branch(ex.bytesEq(es[i].key, key)) {
			return i
		}
	}
	return -1
}

func (st *Store) put(ex *Exec, key []*Term, v Val) {
	cur := st.view(ex)
	i := findEntry(ex, cur, key)
	ne := append([]storeEntry{}, cur...)
	if i >= 0 {
		ne[i] = storeEntry{key: key, val: v}
	} else {
		ne = append(ne, storeEntry{key: key, val: v})
	}
	st.entries = ne
	if st.parent != nil {
		st.ops = append(st.ops, storeOp{key: key, val: v})
	}
	st.ver++
	if st.parent != nil {
		st.viewVer = st.parent.version()
	}
}

func (st *Store) del(ex *Exec, key []*Term) {
	cur := st.view(ex)
	i := findEntry(ex, cur, key)
	if i >= 0 {
		ne := append([]storeEntry{}, cur[:i]...)
		ne = append(ne, cur[i+1:]...)
		st.entries = ne
	}
	if st.parent != nil {
		// recorded even when the key is currently absent: the parent may gain it before Write
		st.ops = append(st.ops, storeOp{key: key, del: true})
	}
	st.ver++
	if st.parent != nil {
		st.viewVer = st.parent.version()
	}
}

type storeEntry struct {
	key []*Term
	val Val // BytesVal or BlobV
}

// BytesVal: immutable raw bytes stored in a KV store
type BytesVal struct{ B []*Term }

// StoreHandle: a KVStore view = underlying store + key prefix
type StoreHandle struct {
	ms     *MultiStore
	name   string
	prefix []*Term
}

func (h *StoreHandle) st() *Store { return h.ms.get(h.name) }

func (h *StoreHandle) fullKey(ex *Exec, k Val) []*Term {
	kb := ex.bytesOf(k)
	if sv, ok := k.(SliceV); ok && sv.Nil {
		kb = nil
	}
	if sv, ok := k.(SliceV); ok && sv.Nil && len(h.prefix) > 0 {
		ex.goPanic("nil key on Store.key")
	}
	// an empty non-nil key is legal under a prefix store (the full key is the prefix itself)
	if len(kb) == 0 && len(h.prefix) == 0 {
		ex.goPanic("key is nil or empty")
	}
	out := make([]*Term, 0, len(h.prefix)+len(kb))
	out = append(out, h.prefix...)
	out = append(out, kb...)
	return out
}

func (ex *Exec) storeValToVal(v Val) Val {
	switch x := v.(type) {
	case BytesVal:
		return ex.mkBytes(x.B)
	}
	return v
}

func (h *StoreHandle) find(ex *Exec, key []*Term) int {
	return findEntry(ex, h.st().view(ex), key)
}

func (h *StoreHandle) Invoke(ex *Exec, m string, a []Val) Val {
	switch m {
	case "Get":
		i := h.find(ex, h.fullKey(ex, a[0]))
		if i < 0 {
			return SliceV{Nil: true}
		}
		return ex.storeValToVal(h.st().view(ex)[i].val)
	case "Has":
		return ex.tf.Bool(h.find(ex, h.fullKey(ex, a[0])) >= 0)
	case "Set":
		key := h.fullKey(ex, a[0])
		var v Val
		switch x := a[1].(type) {
		case BlobV:
			v = x
		case SliceV:
			if x.Nil {
				ex.goPanic("value is nil")
			}
			v = BytesVal{B: append([]*Term{}, ex.bytesOf(x)...)}
		default:
			panic(engineErr(fmt.Sprintf("store.Set value %T", a[1])))
		}
		h.st().put(ex, key, v)
		return nil
	case "Delete":
		h.st().del(ex, h.fullKey(ex, a[0]))
		return nil
	case "Iterator", "ReverseIterator":
		var start, end []*Term
		if s, ok := a[0].(SliceV); ok && !s.Nil {
			start = ex.bytesOf(s)
		}
		hasEnd := false
		if s, ok := a[1].(SliceV); ok && !s.Nil {
			end = ex.bytesOf(s)
			hasEnd = true
		}
		it := h.iterate(ex, start, end, hasEnd)
		if m == "ReverseIterator" {
			for i, j := 0, len(it.items)-1; i < j; i, j = i+1, j-1 {
				it.items[i], it.items[j] = it.items[j], it.items[i]
			}
		}
		return nativeIface(it)
	case "GetStoreType":
		return ex.tf.BVu(0, 64)
	}
	ex.unmodelled("KVStore." + m)
	return nil
}

type IterObj struct {
	items  []storeEntry // keys relative to the handle's prefix
	i      int
	closed bool
}

// iterate: entries with the handle's prefix and start <= relkey < end, in lexicographic order.
func (h *StoreHandle) iterate(ex *Exec, start, end []*Term, hasEnd bool) *IterObj {
	st := h.st()
	var items []storeEntry
	for _, e := range st.view(ex) {
		if len(e.key) < len(h.prefix) {
			continue
		}
		if !ex.Branch(ex.hasPrefix(e.key, h.prefix)) {
			continue
		}
		rel := e.key[len(h.prefix):]
		if len(start) > 0 {
			if ex.Branch(ex.bytesLt(rel, start)) {
				continue
			}
		}
		if hasEnd {
			if !ex.Branch(ex.bytesLt(rel, end)) {
				continue
			}
		}
		items = append(items, storeEntry{key: rel, val: e.val})
	}
	// sort by key; concrete keys sort natively, symbolic comparisons fork
	allConc := true
	for _, it := range items {
		if _, ok := concreteBytes(it.key); !ok {
			allConc = false
			break
		}
	}
	if allConc {
		sort.SliceStable(items, func(i, j int) bool {
			a, _ := concreteBytes(items[i].key)
			b, _ := concreteBytes(items[j].key)
			return a < b
		})
	} else {
		for i := 1; i < len(items); i++ {
			j := i
			for j > 0 && ex.Branch(ex.bytesLt(items[j].key, items[j-1].key)) {
				items[j], items[j-1] = items[j-1], items[j]
				j--
			}
		}
	}
	return &IterObj{items: items}
}

func (it *IterObj) Invoke(ex *Exec, m string, a []Val) Val {
	switch m {
	case "Valid":
		return ex.tf.Bool(it.i < len(it.items))
	case "Next":
		if it.i >= len(it.items) {
			ex.goPanic("iterator Next on invalid iterator")
		}
		it.i++
		return nil
	case "Key":
		if it.i >= len(it.items) {
			ex.goPanic("iterator Key on invalid iterator")
		}
		return ex.mkBytes(it.items[it.i].key)
	case "Value":
		if it.i >= len(it.items) {
			ex.goPanic("iterator Value on invalid iterator")
		}
		return ex.storeValToVal(it.items[it.i].val)
	case "Close":
		it.closed = true
		return IfaceV{}
	case "Error":
		return IfaceV{}
	case "Domain":
		return TupleV{SliceV{Nil: true}, SliceV{Nil: true}}
	}
	ex.unmodelled("Iterator." + m)
	return nil
}

// prefixEnd mirrors sdk.PrefixEndBytes / storetypes.PrefixEndBytes for concrete prefixes
func prefixEndConcrete(p string) (string, bool) {
	b := []byte(p)
	for len(b) > 0 {
		if b[len(b)-1] != 0xff {
			b[len(b)-1]++
			return string(b), true
		}
		b = b[:len(b)-1]
	}
	return "", false
}

// ---------- codec ----------

type CodecObj struct{}

func (c *CodecObj) Invoke(ex *Exec, m string, a []Val) Val {
	switch m {
	case "MustMarshal", "Marshal", "MustMarshalLengthPrefixed", "MarshalInterface":
		var tv Val
		var typ types.Type
		switch x := a[0].(type) {
		case IfaceV:
			if x.T == nil {
				ex.goPanic("marshal of nil message")
			}
			typ = x.T
			p, ok := x.V.(PtrV)
			if !ok {
				ex.unmodelled("marshal of non-pointer message")
			}
			if p.C == nil {
				ex.goPanic("marshal of nil pointer message")
			}
			tv = ex.freeze(ex.load(p))
		default:
			panic(engineErr(fmt.Sprintf("codec.Marshal arg %T", a[0])))
		}
		b := BlobV{V: tv, Typ: typ}
		if m == "Marshal" || m == "MarshalInterface" {
			return TupleV{b, IfaceV{}}
		}
		return b
	case "MustUnmarshal", "Unmarshal", "MustUnmarshalLengthPrefixed":
		iv := a[1].(IfaceV)
		p, ok := iv.V.(PtrV)
		if !ok || p.C == nil {
			ex.goPanic("unmarshal into nil")
		}
		switch b := a[0].(type) {
		case BlobV:
			if !types.Identical(b.Typ, iv.T) {
				ex.unmodelled(fmt.Sprintf("unmarshal type confusion: stored %s read as %s", b.Typ, iv.T))
			}
			ex.store(p, ex.thaw(b.V))
		case SliceV:
			if b.Nil || b.Len == 0 {
				// empty bytes decode to the zero message (fields keep their current values)
			} else {
				ex.unmodelled("unmarshal of raw bytes")
			}
		default:
			panic(engineErr(fmt.Sprintf("codec.Unmarshal arg %T", a[0])))
		}
		if m == "Unmarshal" {
			return IfaceV{}
		}
		return nil
	case "InterfaceRegistry":
		return nativeIface(&OpaqueObj{"InterfaceRegistry"})
	}
	ex.unmodelled("codec." + m)
	return nil
}

type OpaqueObj struct{ Tag string }

func (o *OpaqueObj) Invoke(ex *Exec, m string, a []Val) Val {
	ex.unmodelled("method " + m + " on opaque " + o.Tag)
	return nil
}

// ---------- logger / events / gas ----------

type LoggerObj struct{}

func (l *LoggerObj) Invoke(ex *Exec, m string, a []Val) Val {
	if m == "With" {
		return nativeIface(l)
	}
	return nil
}

type EventMgrObj struct{ n int }

type GasMeterObj struct {
	limit    *Term // BV64
	consumed *Term
	infinite bool
}

func (g *GasMeterObj) Invoke(ex *Exec, m string, a []Val) Val {
	tf := ex.tf
	switch m {
	case "GasConsumed", "GasConsumedToLimit":
		return g.consumed
	case "Limit":
		return g.limit
	case "GasRemaining":
		if g.infinite {
			return tf.BVConst(mask(64), 64)
		}
		return tf.BVSub(g.limit, g.consumed)
	case "ConsumeGas":
		amt := a[0].(*Term)
		nc := tf.BVAdd(g.consumed, amt)
		// overflow
		if ex.Branch(tf.BVUlt(nc, g.consumed)) {
			ex.goPanic("gas overflow (ErrorGasOverflow)")
		}
		g.consumed = nc
		if !g.infinite {
			if ex.Branch(tf.BVUlt(g.limit, nc)) {
				ex.goPanic("out of gas (ErrorOutOfGas)")
			}
		}
		return nil
	case "RefundGas":
		amt := a[0].(*Term)
		if ex.Branch(tf.BVUlt(g.consumed, amt)) {
			ex.goPanic("negative gas consumed (ErrorNegativeGasConsumed)")
		}
		g.consumed = tf.BVSub(g.consumed, amt)
		return nil
	case "IsPastLimit":
		if g.infinite {
			return tf.F
		}
		return tf.BVUlt(g.limit, g.consumed)
	case "IsOutOfGas":
		if g.infinite {
			return tf.F
		}
		return tf.BVUle(g.limit, g.consumed)
	case "String":
		return StrV{Opaque: true, Tag: "gasmeter"}
	}
	ex.unmodelled("GasMeter." + m)
	return nil
}

// ---------- context intrinsics ----------

func (ex *Exec) ctxArg(v Val) *CtxV {
	c, ok := v.(*CtxV)
	if !ok {
		panic(engineErr(fmt.Sprintf("expected sdk.Context, got %T", v)))
	}
	if c.ms == nil {
		// zero Context
		c = &CtxV{ms: ex.env.root, height: ex.tf.BVu(0, 64), time: ex.tf.BVu(0, 64)}
	}
	return c
}

func (c *CtxV) with(f func(n *CtxV)) *CtxV {
	n := *c
	f(&n)
	return &n
}

func init() {
	const C = "(github.com/cosmos/cosmos-sdk/types.Context)."
	reg(rtPkg+"StoreKey", func(ex *Exec, a []Val) Val {
		name := ex.argStr(a[0], "store key name")
		k, ok := ex.env.storeKeys[name]
		if !ok {
			k = &StoreKeyObj{Name: name}
			ex.env.storeKeys[name] = k
		}
		return nativeIface(k)
	})
	reg(rtPkg+"Codec", func(ex *Exec, a []Val) Val { return nativeIface(&CodecObj{}) })
	reg(rtPkg+"NewContext", func(ex *Exec, a []Val) Val {
		// NewContext(height int64, unixNanos sdkmath.Int-free: time as int64 seconds, chainID string)
		h := a[0].(*Term)
		secs := a[1].(*Term)
		chain := ex.argStr(a[2], "chain id")
		return &CtxV{ms: ex.env.freshMS(), height: h, time: ex.tf.BVMul(secs, ex.tf.BVu(1000000000, 64)), chainID: chain,
			gas: &GasMeterObj{infinite: true, limit: ex.tf.BVu(0, 64), consumed: ex.tf.BVu(0, 64)}, events: &EventMgrObj{}}
	})
	reg(rtPkg+"Snapshot", func(ex *Exec, a []Val) Val {
		return PtrV{C: ex.newCell(&SnapObj{ms: ex.ctxArg(a[0]).ms.snapshot(ex)})}
	})
	reg(rtPkg+"SameState", func(ex *Exec, a []Val) Val {
		snap := ex.load(a[1].(PtrV)).(*SnapObj)
		return ex.sameState(ex.ctxArg(a[0]).ms, snap.ms)
	})
	reg(rtPkg+"DescribeDiff", func(ex *Exec, a []Val) Val { return ex.mkStr("") })
	reg(rtPkg+"ClearStore", func(ex *Exec, a []Val) Val {
		c := ex.ctxArg(a[0])
		k, ok := a[1].(IfaceV).V.(*StoreKeyObj)
		if !ok {
			ex.unmodelled("ClearStore with foreign store key")
		}
		st := c.ms.get(k.Name)
		for _, e := range append([]storeEntry{}, st.view(ex)...) {
			st.del(ex, e.key)
		}
		return nil
	})
	reg(rtPkg+"ForkContext", func(ex *Exec, a []Val) Val {
		c := ex.ctxArg(a[0])
		return c.with(func(n *CtxV) { n.ms = c.ms.snapshot(ex); n.events = &EventMgrObj{} })
	})
	// x/params subspace and legacy amino are never used by the code under test
	reg("github.com/cosmos/cosmos-sdk/x/params/types.NewSubspace", func(ex *Exec, a []Val) Val {
		return ex.zeroOfResult("github.com/cosmos/cosmos-sdk/x/params/types.NewSubspace")
	})
	reg("(github.com/cosmos/cosmos-sdk/x/params/types.Subspace).HasKeyTable", func(ex *Exec, a []Val) Val { return ex.tf.T })
	reg("github.com/cosmos/cosmos-sdk/codec.NewLegacyAmino", func(ex *Exec, a []Val) Val { return PtrV{C: ex.newCell(&OpaqueObj{"LegacyAmino"})} })
	reg(rtPkg+"RemountContext", func(ex *Exec, a []Val) Val { return a[0] })
	reg("github.com/cometbft/cometbft/libs/log.NewNopLogger", func(ex *Exec, a []Val) Val { return nativeIface(&LoggerObj{}) })
	reg(rtPkg+"NewContextAt", func(ex *Exec, a []Val) Val {
		h := a[0].(*Term)
		t := a[1].(TimeV)
		if t.Z {
			ex.unmodelled("context with zero block time")
		}
		chain := ex.argStr(a[2], "chain id")
		return &CtxV{ms: ex.env.freshMS(), height: h, time: t.T, chainID: chain,
			gas: &GasMeterObj{infinite: true, limit: ex.tf.BVu(0, 64), consumed: ex.tf.BVu(0, 64)}, events: &EventMgrObj{}}
	})
	reg("github.com/cosmos/cosmos-sdk/telemetry.ModuleMeasureSince", func(ex *Exec, a []Val) Val { return nil })
	reg("github.com/cosmos/cosmos-sdk/telemetry.MeasureSince", func(ex *Exec, a []Val) Val { return nil })
	reg("github.com/cosmos/cosmos-sdk/telemetry.IncrCounter", func(ex *Exec, a []Val) Val { return nil })
	reg("github.com/cosmos/cosmos-sdk/telemetry.SetGauge", func(ex *Exec, a []Val) Val { return nil })
	reg(C+"KVStore", func(ex *Exec, a []Val) Val {
		c := ex.ctxArg(a[0])
		kv, ok := a[1].(IfaceV)
		if !ok || kv.T == nil {
			ex.goPanic("KVStore with nil key")
		}
		k, ok := kv.V.(*StoreKeyObj)
		if !ok {
			ex.unmodelled("KVStore with foreign store key")
		}
		return nativeIface(&StoreHandle{ms: c.ms, name: k.Name})
	})
	intrinsics[C+"TransientStore"] = intrinsics[C+"KVStore"]
	reg(C+"BlockHeight", func(ex *Exec, a []Val) Val { return ex.ctxArg(a[0]).height })
	reg(C+"BlockTime", func(ex *Exec, a []Val) Val { return TimeV{T: ex.ctxArg(a[0]).time} })
	reg(C+"ChainID", func(ex *Exec, a []Val) Val { return ex.mkStr(ex.ctxArg(a[0]).chainID) })
	reg(C+"IsCheckTx", func(ex *Exec, a []Val) Val { return ex.tf.Bool(ex.ctxArg(a[0]).checkTx) })
	reg(C+"IsReCheckTx", func(ex *Exec, a []Val) Val { return ex.tf.Bool(ex.ctxArg(a[0]).recheck) })
	reg(C+"Logger", func(ex *Exec, a []Val) Val { return nativeIface(&LoggerObj{}) })
	reg(C+"EventManager", func(ex *Exec, a []Val) Val {
		c := ex.ctxArg(a[0])
		if c.events == nil {
			c.events = &EventMgrObj{}
		}
		return PtrV{C: ex.newCell(c.events)}
	})
	reg(C+"GasMeter", func(ex *Exec, a []Val) Val {
		c := ex.ctxArg(a[0])
		if c.gas == nil {
			c.gas = &GasMeterObj{infinite: true, limit: ex.tf.BVu(0, 64), consumed: ex.tf.BVu(0, 64)}
		}
		return nativeIface(c.gas)
	})
	reg(C+"BlockGasMeter", func(ex *Exec, a []Val) Val {
		c := ex.ctxArg(a[0])
		if c.blockGas == nil {
			return IfaceV{}
		}
		return nativeIface(c.blockGas)
	})
	reg(C+"TxBytes", func(ex *Exec, a []Val) Val {
		c := ex.ctxArg(a[0])
		if c.txBytes == nil {
			return SliceV{Nil: true}
		}
		return c.txBytes
	})
	reg(C+"Priority", func(ex *Exec, a []Val) Val {
		c := ex.ctxArg(a[0])
		if c.priority == nil {
			return ex.tf.BVu(0, 64)
		}
		return c.priority
	})
	reg(C+"MinGasPrices", func(ex *Exec, a []Val) Val {
		c := ex.ctxArg(a[0])
		if c.minGas == nil {
			return SliceV{Nil: true}
		}
		return c.minGas
	})
	reg(C+"Context", func(ex *Exec, a []Val) Val { return nativeIface(ex.ctxArg(a[0])) })
	reg(C+"WithBlockHeight", func(ex *Exec, a []Val) Val {
		return ex.ctxArg(a[0]).with(func(n *CtxV) { n.height = a[1].(*Term) })
	})
	reg(C+"WithBlockTime", func(ex *Exec, a []Val) Val {
		return ex.ctxArg(a[0]).with(func(n *CtxV) { n.time = a[1].(TimeV).T })
	})
	reg(C+"WithChainID", func(ex *Exec, a []Val) Val {
		s := ex.argStr(a[1], "chain id")
		return ex.ctxArg(a[0]).with(func(n *CtxV) { n.chainID = s })
	})
	reg(C+"WithIsCheckTx", func(ex *Exec, a []Val) Val {
		b := ex.Branch(a[1].(*Term))
		return ex.ctxArg(a[0]).with(func(n *CtxV) { n.checkTx = b })
	})
	reg(C+"WithIsReCheckTx", func(ex *Exec, a []Val) Val {
		b := ex.Branch(a[1].(*Term))
		return ex.ctxArg(a[0]).with(func(n *CtxV) {
			n.recheck = b
			if b {
				n.checkTx = true
			}
		})
	})
	for _, pk := range []string{"github.com/cosmos/cosmos-sdk/store/types.", "github.com/cosmos/cosmos-sdk/types."} {
		reg(pk+"NewInfiniteGasMeter", func(ex *Exec, a []Val) Val {
			return nativeIface(&GasMeterObj{infinite: true, limit: ex.tf.BVu(0, 64), consumed: ex.tf.BVu(0, 64)})
		})
		reg(pk+"NewGasMeter", func(ex *Exec, a []Val) Val {
			return nativeIface(&GasMeterObj{limit: a[0].(*Term), consumed: ex.tf.BVu(0, 64)})
		})
	}
	reg(C+"WithGasMeter", func(ex *Exec, a []Val) Val {
		iv := a[1].(IfaceV)
		g, _ := iv.V.(*GasMeterObj)
		return ex.ctxArg(a[0]).with(func(n *CtxV) { n.gas = g })
	})
	reg(C+"WithBlockGasMeter", func(ex *Exec, a []Val) Val {
		iv := a[1].(IfaceV)
		g, _ := iv.V.(*GasMeterObj)
		return ex.ctxArg(a[0]).with(func(n *CtxV) { n.blockGas = g })
	})
	reg(C+"WithPriority", func(ex *Exec, a []Val) Val {
		return ex.ctxArg(a[0]).with(func(n *CtxV) { n.priority = a[1].(*Term) })
	})
	reg(C+"WithTxBytes", func(ex *Exec, a []Val) Val {
		return ex.ctxArg(a[0]).with(func(n *CtxV) { n.txBytes = a[1] })
	})
	reg(C+"WithMinGasPrices", func(ex *Exec, a []Val) Val {
		return ex.ctxArg(a[0]).with(func(n *CtxV) { n.minGas = a[1] })
	})
	reg(C+"WithEventManager", func(ex *Exec, a []Val) Val { return ex.ctxArg(a[0]).with(func(n *CtxV) {}) })
	reg(C+"WithLogger", func(ex *Exec, a []Val) Val { return ex.ctxArg(a[0]).with(func(n *CtxV) {}) })
	reg(C+"WithKVGasConfig", func(ex *Exec, a []Val) Val { return ex.ctxArg(a[0]).with(func(n *CtxV) {}) })
	reg(C+"WithTransientKVGasConfig", func(ex *Exec, a []Val) Val { return ex.ctxArg(a[0]).with(func(n *CtxV) {}) })
	reg(C+"WithValue", func(ex *Exec, a []Val) Val {
		return ex.ctxArg(a[0]).with(func(n *CtxV) {
			n.values = append(append([]ctxKV{}, n.values...), ctxKV{a[1], a[2]})
		})
	})
	reg(C+"Value", func(ex *Exec, a []Val) Val {
		c := ex.ctxArg(a[0])
		for i := len(c.values) - 1; i >= 0; i-- {
			if ex.Branch(ex.valEq(c.values[i].k, a[1])) {
				return c.values[i].v
			}
		}
		return IfaceV{}
	})
	reg(C+"CacheContext", func(ex *Exec, a []Val) Val {
		c := ex.ctxArg(a[0])
		child := c.ms.layer()
		cc := c.with(func(n *CtxV) { n.ms = child; n.events = &EventMgrObj{} })
		write := FuncV{Name: "writeCache", Native: func(ex *Exec, _ []Val) Val {
			child.write(ex)
			return nil
		}}
		return TupleV{cc, write}
	})
	reg("github.com/cosmos/cosmos-sdk/types.WrapSDKContext", func(ex *Exec, a []Val) Val { return nativeIface(ex.ctxArg(a[0])) })
	reg("github.com/cosmos/cosmos-sdk/types.UnwrapSDKContext", func(ex *Exec, a []Val) Val {
		iv, ok := a[0].(IfaceV)
		if !ok || iv.T == nil {
			ex.goPanic("UnwrapSDKContext(nil)")
		}
		c, ok := iv.V.(*CtxV)
		if !ok {
			ex.unmodelled("UnwrapSDKContext of foreign context")
		}
		return c
	})

	// prefix store
	reg("github.com/cosmos/cosmos-sdk/store/prefix.NewStore", func(ex *Exec, a []Val) Val {
		iv := a[0].(IfaceV)
		parent, ok := iv.V.(*StoreHandle)
		if !ok {
			ex.unmodelled("prefix.NewStore on foreign store")
		}
		p := append(append([]*Term{}, parent.prefix...), ex.bytesOf(a[1])...)
		return &StoreHandle{ms: parent.ms, name: parent.name, prefix: p}
	})
	for _, m := range []string{"Get", "Has", "Set", "Delete", "Iterator", "ReverseIterator"} {
		m := m
		reg("(github.com/cosmos/cosmos-sdk/store/prefix.Store)."+m, func(ex *Exec, a []Val) Val {
			return a[0].(*StoreHandle).Invoke(ex, m, a[1:])
		})
	}
	prefixIter := func(rev bool) Intrinsic {
		return func(ex *Exec, a []Val) Val {
			var h *StoreHandle
			switch x := a[0].(type) {
			case IfaceV:
				h, _ = x.V.(*StoreHandle)
			case *StoreHandle:
				h = x
			}
			if h == nil {
				ex.unmodelled("KVStorePrefixIterator on foreign store")
			}
			p := ex.bytesOf(a[1])
			sub := &StoreHandle{ms: h.ms, name: h.name, prefix: append(append([]*Term{}, h.prefix...), p...)}
			it := sub.iterate(ex, nil, nil, false)
			// keys are reported relative to h (i.e. including p)
			for i := range it.items {
				it.items[i].key = append(append([]*Term{}, p...), it.items[i].key...)
			}
			if rev {
				for i, j := 0, len(it.items)-1; i < j; i, j = i+1, j-1 {
					it.items[i], it.items[j] = it.items[j], it.items[i]
				}
			}
			return nativeIface(it)
		}
	}
	reg("github.com/cosmos/cosmos-sdk/types.KVStorePrefixIterator", prefixIter(false))
	reg("github.com/cosmos/cosmos-sdk/types.KVStoreReversePrefixIterator", prefixIter(true))
	reg("github.com/cosmos/cosmos-sdk/store/types.KVStorePrefixIterator", prefixIter(false))
	reg("github.com/cosmos/cosmos-sdk/store/types.KVStoreReversePrefixIterator", prefixIter(true))

	// events: no-ops
	const EM = "(*github.com/cosmos/cosmos-sdk/types.EventManager)."
	reg(EM+"EmitEvent", func(ex *Exec, a []Val) Val { return nil })
	reg(EM+"EmitEvents", func(ex *Exec, a []Val) Val { return nil })
	reg(EM+"EmitTypedEvent", func(ex *Exec, a []Val) Val { return IfaceV{} })
	reg(EM+"EmitTypedEvents", func(ex *Exec, a []Val) Val { return IfaceV{} })
	zeroRet := func(ex *Exec, a []Val) Val { return nil }
	_ = zeroRet

	// byte-order helpers
	reg("github.com/cosmos/cosmos-sdk/types.Uint64ToBigEndian", func(ex *Exec, a []Val) Val {
		t := a[0].(*Term)
		bs := make([]*Term, 8)
		for i := 0; i < 8; i++ {
			bs[i] = ex.tf.Extract(63-8*i, 56-8*i, t)
		}
		return ex.mkBytes(bs)
	})
	reg("github.com/cosmos/cosmos-sdk/types.BigEndianToUint64", func(ex *Exec, a []Val) Val {
		bs := ex.bytesOf(a[0])
		if len(bs) == 0 {
			return ex.tf.BVu(0, 64)
		}
		if len(bs) < 8 {
			ex.goPanic("BigEndianToUint64: slice too short")
		}
		t := bs[0]
		for i := 1; i < 8; i++ {
			t = ex.tf.Concat(t, bs[i])
		}
		return t
	})
	be := func(n int) Intrinsic {
		return func(ex *Exec, a []Val) Val {
			bs := ex.bytesOf(a[len(a)-1])
			if len(bs) < n {
				ex.goPanic("binary.BigEndian: index out of range")
			}
			t := bs[0]
			for i := 1; i < n; i++ {
				t = ex.tf.Concat(t, bs[i])
			}
			return t
		}
	}
	reg("(encoding/binary.bigEndian).Uint64", be(8))
	reg("(encoding/binary.bigEndian).Uint32", be(4))
	reg("(encoding/binary.bigEndian).Uint16", be(2))
	put := func(n int) Intrinsic {
		return func(ex *Exec, a []Val) Val {
			dst := a[len(a)-2].(SliceV)
			t := a[len(a)-1].(*Term)
			if dst.Len < n {
				ex.goPanic("binary.BigEndian.Put: index out of range")
			}
			for i := 0; i < n; i++ {
				ex.store(dst.P.sub(dst.Off+i), ex.tf.Extract(8*(n-i)-1, 8*(n-i)-8, t))
			}
			return nil
		}
	}
	reg("(encoding/binary.bigEndian).PutUint64", put(8))
	reg("(encoding/binary.bigEndian).PutUint32", put(4))
	reg("(encoding/binary.bigEndian).PutUint16", put(2))
	reg("(encoding/binary.bigEndian).AppendUint64", func(ex *Exec, a []Val) Val {
		t := a[len(a)-1].(*Term)
		bs := make([]Val, 8)
		for i := 0; i < 8; i++ {
			bs[i] = ex.tf.Extract(63-8*i, 56-8*i, t)
		}
		return ex.callBuiltin("append", []Val{a[len(a)-2], ex.newSlice(bs, 8)}, nil)
	})
}

var _ = big.NewInt

func (ex *Exec) blobLen(b BlobV) Val {
	// length of marshalled bytes is not modelled precisely: treated as non-empty
	return ex.tf.BVu(1, 64)
}

// SnapObj: a frozen copy of a multistore (verifrt.Snapshot).
type SnapObj struct{ ms *MultiStore }

// sameState: both multistores hold the same key set with equal values. Concrete keys are matched
// directly; a symbolic key forks on equality with each candidate.
func (ex *Exec) sameState(a, b *MultiStore) *Term {
	names := map[string]bool{}
	for _, ms := range []*MultiStore{a, b} {
		for m := ms; m != nil; m = m.parent {
			for n := range m.stores {
				names[n] = true
			}
		}
	}
	sorted := make([]string, 0, len(names))
	for n := range names {
		sorted = append(sorted, n)
	}
	sort.Strings(sorted)
	cs := []*Term{}
	for _, n := range sorted {
		ea, eb := a.get(n).view(ex), b.get(n).view(ex)
		if len(ea) != len(eb) {
			return ex.tf.F
		}
		used := make([]bool, len(eb))
		for _, x := range ea {
			found := -1
			xs, xc := concreteBytes(x.key)
			for j, y := range eb {
				if used[j] || len(y.key) != len(x.key) {
					continue
				}
				ys, yc := concreteBytes(y.key)
				if xc && yc {
					if xs == ys {
						found = j
						break
					}
					continue
				}
				if ex.Branch(ex.bytesEq(x.key, y.key)) {
					found = j
					break
				}
			}
			if found < 0 {
				return ex.tf.F
			}
			used[found] = true
			cs = append(cs, ex.storeValEq(x.val, eb[found].val))
		}
	}
	return ex.tf.And(cs...)
}

func (ex *Exec) storeValEq(x, y Val) *Term {
	switch p := x.(type) {
	case BytesVal:
		q, ok := y.(BytesVal)
		if !ok {
			ex.unmodelled("compare raw bytes with a codec blob in the store")
		}
		if len(p.B) != len(q.B) {
			return ex.tf.F
		}
		return ex.bytesEq(p.B, q.B)
	case BlobV:
		q, ok := y.(BlobV)
		if !ok {
			ex.unmodelled("compare raw bytes with a codec blob in the store")
		}
		return ex.valEq(p.V, q.V)
	}
	ex.unmodelled("store value kind")
	return nil
}
