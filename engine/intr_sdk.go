package main

// Intrinsics for addresses (bech32), hex/hexutil, go-ethereum common, time, coins.

import (
	"encoding/hex"
	"fmt"
	"go/types"
	"math/big"
	"regexp"
	"strings"
	"time"
)

// ---------- bech32 (BIP-173) ----------

const bech32Charset = "qpzry9x8gf2tvdw0s3jn54khce6mua7l"

func bech32Polymod(values []byte) uint32 {
	gen := []uint32{0x3b6a57b2, 0x26508e6d, 0x1ea119fa, 0x3d4233dd, 0x2a1462b3}
	chk := uint32(1)
	for _, v := range values {
		top := chk >> 25
		chk = (chk&0x1ffffff)<<5 ^ uint32(v)
		for i := 0; i < 5; i++ {
			if (top>>uint(i))&1 == 1 {
				chk ^= gen[i]
			}
		}
	}
	return chk
}

func bech32HrpExpand(hrp string) []byte {
	out := []byte{}
	for i := 0; i < len(hrp); i++ {
		out = append(out, hrp[i]>>5)
	}
	out = append(out, 0)
	for i := 0; i < len(hrp); i++ {
		out = append(out, hrp[i]&31)
	}
	return out
}

func convertBits(data []byte, from, to uint, pad bool) ([]byte, bool) {
	acc, bits := uint32(0), uint(0)
	var out []byte
	maxv := uint32(1<<to) - 1
	for _, v := range data {
		acc = acc<<from | uint32(v)
		bits += from
		for bits >= to {
			bits -= to
			out = append(out, byte(acc>>bits&maxv))
		}
	}
	if pad {
		if bits > 0 {
			out = append(out, byte(acc<<(to-bits)&maxv))
		}
	} else if bits >= from || (acc<<(to-bits))&maxv != 0 {
		return nil, false
	}
	return out, true
}

func bech32Encode(hrp string, data []byte) string {
	d5, _ := convertBits(data, 8, 5, true)
	values := append(bech32HrpExpand(hrp), d5...)
	pm := bech32Polymod(append(values, 0, 0, 0, 0, 0, 0)) ^ 1
	var sb strings.Builder
	sb.WriteString(hrp)
	sb.WriteByte('1')
	for _, v := range d5 {
		sb.WriteByte(bech32Charset[v])
	}
	for i := 0; i < 6; i++ {
		sb.WriteByte(bech32Charset[(pm>>uint(5*(5-i)))&31])
	}
	return sb.String()
}

func bech32Decode(s string) (string, []byte, bool) {
	if len(s) < 8 || len(s) > 1023 {
		return "", nil, false
	}
	lower := strings.ToLower(s)
	if lower != s && strings.ToUpper(s) != s {
		return "", nil, false
	}
	s = lower
	pos := strings.LastIndexByte(s, '1')
	if pos < 1 || pos+7 > len(s) {
		return "", nil, false
	}
	hrp := s[:pos]
	var data []byte
	for i := pos + 1; i < len(s); i++ {
		d := strings.IndexByte(bech32Charset, s[i])
		if d < 0 {
			return "", nil, false
		}
		data = append(data, byte(d))
	}
	if bech32Polymod(append(bech32HrpExpand(hrp), data...)) != 1 {
		return "", nil, false
	}
	out, ok := convertBits(data[:len(data)-6], 5, 8, false)
	if !ok {
		return "", nil, false
	}
	return hrp, out, true
}

// hex of symbolic bytes
func (ex *Exec) hexOfBytes(bs []*Term) []*Term {
	out := make([]*Term, 0, 2*len(bs))
	for _, b := range bs {
		hi := ex.tf.ZExt(ex.tf.Extract(7, 4, b), 8)
		lo := ex.tf.ZExt(ex.tf.Extract(3, 0, b), 8)
		out = append(out, ex.digitChar(hi), ex.digitChar(lo))
	}
	return out
}

// hexDigitVal: (isHex, value 0..15 as BV8) of a character term
func (ex *Exec) hexDigitVal(c *Term) (*Term, *Term) {
	tf := ex.tf
	isDec := tf.And(tf.BVUle(tf.BVu('0', 8), c), tf.BVUle(c, tf.BVu('9', 8)))
	isLo := tf.And(tf.BVUle(tf.BVu('a', 8), c), tf.BVUle(c, tf.BVu('f', 8)))
	isUp := tf.And(tf.BVUle(tf.BVu('A', 8), c), tf.BVUle(c, tf.BVu('F', 8)))
	v := tf.Ite(isDec, tf.BVSub(c, tf.BVu('0', 8)), tf.Ite(isLo, tf.BVSub(c, tf.BVu('a'-10, 8)), tf.BVSub(c, tf.BVu('A'-10, 8))))
	return tf.Or(isDec, isLo, isUp), v
}

// decodeHexChars: even-length hex chars -> bytes; returns ok=false path by forking
func (ex *Exec) decodeHexChars(cs []*Term) ([]*Term, bool) {
	if len(cs)%2 != 0 {
		return nil, false
	}
	out := make([]*Term, len(cs)/2)
	for i := 0; i < len(cs); i += 2 {
		ok1, v1 := ex.hexDigitVal(cs[i])
		ok2, v2 := ex.hexDigitVal(cs[i+1])
		if !ex.Branch(ex.tf.And(ok1, ok2)) {
			return nil, false
		}
		out[i/2] = ex.tf.BVOr(ex.tf.BVShl(v1, ex.tf.BVu(4, 8)), v2)
	}
	return out, true
}

func (ex *Exec) has0x(s []*Term) *Term {
	if len(s) < 2 {
		return ex.tf.F
	}
	return ex.tf.And(ex.tf.Eq(s[0], ex.tf.BVu('0', 8)), ex.tf.Or(ex.tf.Eq(s[1], ex.tf.BVu('x', 8)), ex.tf.Eq(s[1], ex.tf.BVu('X', 8))))
}

func (ex *Exec) addrBytes(v Val) []*Term {
	switch x := v.(type) {
	case SliceV:
		if x.Nil {
			return nil
		}
		return ex.bytesOf(x)
	case ArrayV:
		return ex.bytesOf(x)
	}
	panic(engineErr(fmt.Sprintf("address value %T", v)))
}

func (ex *Exec) bech32Str(hrp string, v Val) Val {
	bs := ex.addrBytes(v)
	if len(bs) == 0 {
		return ex.mkStr("")
	}
	cs, ok := concreteBytes(bs)
	if !ok {
		// symbolic address: injective opaque encoding is not modelled
		ex.unmodelled("bech32 encoding of symbolic address bytes")
	}
	return ex.mkStr(bech32Encode(hrp, []byte(cs)))
}

func (ex *Exec) fromBech32(hrp string, s Val) Val {
	str, ok := ex.concreteStr(s)
	if !ok {
		ex.unmodelled("bech32 decoding of symbolic string")
	}
	if len(strings.TrimSpace(str)) == 0 {
		return TupleV{SliceV{Nil: true}, ex.newErr("bech32", "empty address string is not allowed")}
	}
	h, data, ok := bech32Decode(str)
	if !ok {
		return TupleV{SliceV{Nil: true}, ex.newErr("bech32", "decoding bech32 failed")}
	}
	if h != hrp {
		return TupleV{SliceV{Nil: true}, ex.newErr("bech32", "invalid Bech32 prefix")}
	}
	if len(data) == 0 || len(data) > 255 {
		return TupleV{SliceV{Nil: true}, ex.newErr("bech32", "invalid address length")}
	}
	return TupleV{ex.mkBytes(ex.constBytes(string(data))), IfaceV{}}
}

func init() {
	const T = "github.com/cosmos/cosmos-sdk/types."
	for _, k := range []struct{ typ, hrp string }{{"AccAddress", "exo"}, {"ValAddress", "exovaloper"}, {"ConsAddress", "exovalcons"}} {
		k := k
		reg("("+T+k.typ+").String", func(ex *Exec, a []Val) Val { return ex.bech32Str(k.hrp, a[0]) })
		reg("("+T+k.typ+").Bytes", func(ex *Exec, a []Val) Val { return a[0] })
		reg("("+T+k.typ+").Empty", func(ex *Exec, a []Val) Val {
			return ex.tf.Bool(len(ex.addrBytes(a[0])) == 0)
		})
		reg("("+T+k.typ+").Equals", func(ex *Exec, a []Val) Val {
			other := a[1]
			if iv, ok := other.(IfaceV); ok {
				if iv.T == nil {
					return ex.tf.Bool(len(ex.addrBytes(a[0])) == 0)
				}
				other = iv.V
			}
			x, y := ex.addrBytes(a[0]), ex.addrBytes(other)
			if len(x) == 0 && len(y) == 0 {
				return ex.tf.T
			}
			return ex.bytesEq(x, y)
		})
		reg(T+k.typ+"FromBech32", func(ex *Exec, a []Val) Val { return ex.fromBech32(k.hrp, a[0]) })
	}
	reg(T+"MustAccAddressFromBech32", func(ex *Exec, a []Val) Val {
		r := ex.fromBech32("exo", a[0]).(TupleV)
		if iv := r[1].(IfaceV); iv.T != nil {
			ex.goPanic("MustAccAddressFromBech32: invalid address")
		}
		return r[0]
	})
	reg(T+"VerifyAddressFormat", func(ex *Exec, a []Val) Val {
		n := len(ex.addrBytes(a[0]))
		if n == 0 {
			return ex.newErr("sdk/addr", "addresses cannot be empty")
		}
		if n > 255 {
			return ex.newErr("sdk/addr", "address too long")
		}
		return IfaceV{}
	})
	reg(T+"GetConsAddress", func(ex *Exec, a []Val) Val {
		iv := a[0].(IfaceV)
		if iv.T == nil {
			ex.goPanic("nil pointer dereference (GetConsAddress of a nil key)")
		}
		return ex.invokeByName(iv, "Address", nil)
	})

	// ---------- encoding/hex, hexutil ----------
	reg("encoding/hex.EncodeToString", func(ex *Exec, a []Val) Val { return StrV{B: ex.hexOfBytes(ex.bytesOf(a[0]))} })
	reg("encoding/hex.DecodeString", func(ex *Exec, a []Val) Val {
		bs, ok := ex.decodeHexChars(ex.bytesOf(a[0]))
		if !ok {
			return TupleV{SliceV{Nil: true}, ex.newErr("hex", "invalid hex string")}
		}
		return TupleV{ex.mkBytes(bs), IfaceV{}}
	})
	const HU = "github.com/ethereum/go-ethereum/common/hexutil."
	reg(HU+"Encode", func(ex *Exec, a []Val) Val {
		return StrV{B: append(ex.constBytes("0x"), ex.hexOfBytes(ex.bytesOf(a[0]))...)}
	})
	reg(HU+"EncodeUint64", func(ex *Exec, a []Val) Val {
		t := a[0].(*Term)
		if t.IsConst() {
			return ex.mkStr("0x" + t.C.Text(16))
		}
		return StrV{B: append(ex.constBytes("0x"), ex.digitsOf(t, 16)...)}
	})
	reg(HU+"Decode", func(ex *Exec, a []Val) Val {
		s := ex.bytesOf(a[0])
		if len(s) == 0 {
			return TupleV{SliceV{Nil: true}, ex.newErr("hexutil", "empty hex string")}
		}
		if !ex.Branch(ex.has0x(s)) {
			return TupleV{SliceV{Nil: true}, ex.newErr("hexutil", "hex string without 0x prefix")}
		}
		bs, ok := ex.decodeHexChars(s[2:])
		if !ok {
			return TupleV{SliceV{Nil: true}, ex.newErr("hexutil", "invalid hex string")}
		}
		return TupleV{ex.mkBytes(bs), IfaceV{}}
	})
	reg(HU+"MustDecode", func(ex *Exec, a []Val) Val {
		r := intrinsics[HU+"Decode"](ex, a).(TupleV)
		if iv := r[1].(IfaceV); iv.T != nil {
			ex.goPanic("hexutil.MustDecode: invalid input")
		}
		return r[0]
	})
	reg(HU+"DecodeUint64", func(ex *Exec, a []Val) Val {
		s := ex.bytesOf(a[0])
		tf := ex.tf
		fail := func(msg string) Val { return TupleV{tf.BVu(0, 64), ex.newErr("hexutil", msg)} }
		if len(s) == 0 {
			return fail("empty hex string")
		}
		if !ex.Branch(ex.has0x(s)) {
			return fail("hex string without 0x prefix")
		}
		d := s[2:]
		if len(d) == 0 {
			return fail("hex string \"0x\"")
		}
		if len(d) > 1 && ex.Branch(tf.Eq(d[0], tf.BVu('0', 8))) {
			return fail("hex number with leading zero digits")
		}
		if len(d) > 16 {
			return fail("hex number > 64 bits")
		}
		acc := tf.BVu(0, 64)
		for _, c := range d {
			ok, v := ex.hexDigitVal(c)
			if !ex.Branch(ok) {
				return fail("invalid hex string")
			}
			acc = tf.BVOr(tf.BVShl(acc, tf.BVu(4, 64)), tf.ZExt(v, 64))
		}
		return TupleV{acc, IfaceV{}}
	})

	// ---------- go-ethereum common ----------
	const CM = "github.com/ethereum/go-ethereum/common."
	reg(CM+"BytesToAddress", func(ex *Exec, a []Val) Val {
		bs := ex.bytesOf(a[0])
		if len(bs) > 20 {
			bs = bs[len(bs)-20:]
		}
		out := make([]Val, 20)
		for i := range out {
			out[i] = ex.tf.BVu(0, 8)
		}
		for i, b := range bs {
			out[20-len(bs)+i] = b
		}
		return ArrayV{E: out}
	})
	reg(CM+"HexToAddress", func(ex *Exec, a []Val) Val {
		s := ex.bytesOf(a[0])
		if ex.Branch(ex.has0x(s)) {
			s = s[2:]
		}
		if len(s)%2 == 1 {
			s = append(ex.constBytes("0"), s...)
		}
		// hex.DecodeString errors are ignored by common.FromHex: decode the valid prefix
		var bs []*Term
		for i := 0; i+1 < len(s); i += 2 {
			ok1, v1 := ex.hexDigitVal(s[i])
			ok2, v2 := ex.hexDigitVal(s[i+1])
			if !ex.Branch(ex.tf.And(ok1, ok2)) {
				break
			}
			bs = append(bs, ex.tf.BVOr(ex.tf.BVShl(v1, ex.tf.BVu(4, 8)), v2))
		}
		return intrinsics[CM+"BytesToAddress"](ex, []Val{ex.mkBytes(bs)})
	})
	reg(CM+"FromHex", func(ex *Exec, a []Val) Val {
		s := ex.bytesOf(a[0])
		if len(s) >= 2 && ex.Branch(ex.has0x(s)) {
			s = s[2:]
		}
		if len(s)%2 == 1 {
			s = append(ex.constBytes("0"), s...)
		}
		var bs []*Term
		for i := 0; i+1 < len(s); i += 2 {
			ok1, v1 := ex.hexDigitVal(s[i])
			ok2, v2 := ex.hexDigitVal(s[i+1])
			if !ex.Branch(ex.tf.And(ok1, ok2)) {
				break
			}
			bs = append(bs, ex.tf.BVOr(ex.tf.BVShl(v1, ex.tf.BVu(4, 8)), v2))
		}
		return ex.mkBytes(bs)
	})
	reg(CM+"IsHexAddress", func(ex *Exec, a []Val) Val {
		s := ex.bytesOf(a[0])
		if len(s) >= 2 && ex.Branch(ex.has0x(s)) {
			s = s[2:]
		}
		if len(s) != 40 {
			return ex.tf.F
		}
		var cs []*Term
		for _, c := range s {
			ok, _ := ex.hexDigitVal(c)
			cs = append(cs, ok)
		}
		return ex.tf.And(cs...)
	})
	reg("("+CM+"Address).Bytes", func(ex *Exec, a []Val) Val { return ex.mkBytes(ex.bytesOf(a[0])) })
	reg("("+CM+"Address).Hex", func(ex *Exec, a []Val) Val {
		bs := ex.bytesOf(a[0])
		cs, ok := concreteBytes(bs)
		if !ok {
			ex.unmodelled("checksummed Hex() of symbolic address")
		}
		return ex.mkStr(eip55([]byte(cs)))
	})
	intrinsics["("+CM+"Address).String"] = intrinsics["("+CM+"Address).Hex"]
	reg("("+CM+"Hash).Bytes", func(ex *Exec, a []Val) Val { return ex.mkBytes(ex.bytesOf(a[0])) })
	reg("("+CM+"Hash).Hex", func(ex *Exec, a []Val) Val {
		return StrV{B: append(ex.constBytes("0x"), ex.hexOfBytes(ex.bytesOf(a[0]))...)}
	})
	intrinsics["("+CM+"Hash).String"] = intrinsics["("+CM+"Hash).Hex"]
	reg(CM+"BytesToHash", func(ex *Exec, a []Val) Val {
		bs := ex.bytesOf(a[0])
		if len(bs) > 32 {
			bs = bs[len(bs)-32:]
		}
		out := make([]Val, 32)
		for i := range out {
			out[i] = ex.tf.BVu(0, 8)
		}
		for i, b := range bs {
			out[32-len(bs)+i] = b
		}
		return ArrayV{E: out}
	})
	reg(CM+"HexToHash", func(ex *Exec, a []Val) Val {
		s := ex.bytesOf(a[0])
		if ex.Branch(ex.has0x(s)) {
			s = s[2:]
		}
		if len(s)%2 == 1 {
			s = append(ex.constBytes("0"), s...)
		}
		var bs []*Term
		for i := 0; i+1 < len(s); i += 2 {
			ok1, v1 := ex.hexDigitVal(s[i])
			ok2, v2 := ex.hexDigitVal(s[i+1])
			if !ex.Branch(ex.tf.And(ok1, ok2)) {
				break
			}
			bs = append(bs, ex.tf.BVOr(ex.tf.BVShl(v1, ex.tf.BVu(4, 8)), v2))
		}
		return intrinsics[CM+"BytesToHash"](ex, []Val{ex.mkBytes(bs)})
	})
	reg(CM+"LeftPadBytes", func(ex *Exec, a []Val) Val {
		bs := ex.bytesOf(a[0])
		n := ex.concretizeInt(a[1].(*Term), 0, 4096, "LeftPadBytes")
		if n <= len(bs) {
			return a[0]
		}
		out := make([]*Term, n)
		for i := range out {
			out[i] = ex.tf.BVu(0, 8)
		}
		copy(out[n-len(bs):], bs)
		return ex.mkBytes(out)
	})
	reg(CM+"Bytes2Hex", func(ex *Exec, a []Val) Val { return StrV{B: ex.hexOfBytes(ex.bytesOf(a[0]))} })

	// ---------- time (BV64 nanoseconds; zero time.Time is a flag) ----------
	const TM = "(time.Time)."
	tv := func(ex *Exec, v Val, what string) *Term {
		t := v.(TimeV)
		if t.Z {
			ex.unmodelled("arithmetic on the zero time.Time in " + what)
		}
		return t.T
	}
	reg(TM+"Add", func(ex *Exec, a []Val) Val { return TimeV{T: ex.tf.BVAdd(tv(ex, a[0], "Add"), a[1].(*Term))} })
	reg(TM+"Sub", func(ex *Exec, a []Val) Val { return ex.tf.BVSub(tv(ex, a[0], "Sub"), tv(ex, a[1], "Sub")) })
	cmpT := func(f func(ex *Exec, x, y *Term) *Term, zeroFirst, bothZero bool) Intrinsic {
		return func(ex *Exec, a []Val) Val {
			x, y := a[0].(TimeV), a[1].(TimeV)
			switch {
			case x.Z && y.Z:
				return ex.tf.Bool(bothZero)
			case x.Z:
				return ex.tf.Bool(zeroFirst)
			case y.Z:
				return ex.tf.Bool(!zeroFirst && !bothZero || (!zeroFirst && bothZero && false))
			}
			return f(ex, x.T, y.T)
		}
	}
	// Before: zero < everything
	reg(TM+"Before", func(ex *Exec, a []Val) Val {
		x, y := a[0].(TimeV), a[1].(TimeV)
		if x.Z || y.Z {
			return ex.tf.Bool(x.Z && !y.Z)
		}
		return ex.tf.BVSlt(x.T, y.T)
	})
	reg(TM+"After", func(ex *Exec, a []Val) Val {
		x, y := a[0].(TimeV), a[1].(TimeV)
		if x.Z || y.Z {
			return ex.tf.Bool(y.Z && !x.Z)
		}
		return ex.tf.BVSlt(y.T, x.T)
	})
	reg(TM+"Equal", func(ex *Exec, a []Val) Val {
		x, y := a[0].(TimeV), a[1].(TimeV)
		if x.Z || y.Z {
			return ex.tf.Bool(x.Z && y.Z)
		}
		return ex.tf.Eq(x.T, y.T)
	})
	_ = cmpT
	reg(TM+"Compare", func(ex *Exec, a []Val) Val {
		x, y := tv(ex, a[0], "Compare"), tv(ex, a[1], "Compare")
		return ex.tf.Ite(ex.tf.BVSlt(x, y), ex.tf.BVi(-1, 64), ex.tf.Ite(ex.tf.Eq(x, y), ex.tf.BVi(0, 64), ex.tf.BVi(1, 64)))
	})
	reg(TM+"IsZero", func(ex *Exec, a []Val) Val { return ex.tf.Bool(a[0].(TimeV).Z) })
	reg(TM+"UTC", func(ex *Exec, a []Val) Val { return a[0] })
	reg(TM+"Unix", func(ex *Exec, a []Val) Val {
		t := a[0].(TimeV)
		if t.Z {
			return ex.tf.BVi(-62135596800, 64)
		}
		// floor division by 1e9
		n := ex.tf.BVu(1000000000, 64)
		q := ex.tf.BVSDiv(t.T, n)
		r := ex.tf.BVSRem(t.T, n)
		return ex.tf.Ite(ex.tf.BVSlt(r, ex.tf.BVu(0, 64)), ex.tf.BVSub(q, ex.tf.BVu(1, 64)), q)
	})
	reg(TM+"UnixNano", func(ex *Exec, a []Val) Val { return tv(ex, a[0], "UnixNano") })
	reg(TM+"String", func(ex *Exec, a []Val) Val { return StrV{Opaque: true, Tag: "time"} })
	reg(TM+"Format", func(ex *Exec, a []Val) Val { return StrV{Opaque: true, Tag: "time"} })
	reg("time.Unix", func(ex *Exec, a []Val) Val {
		s, n := a[0].(*Term), a[1].(*Term)
		return TimeV{T: ex.tf.BVAdd(ex.tf.BVMul(s, ex.tf.BVu(1000000000, 64)), n)}
	})
	parse := func(ex *Exec, layout, value Val) Val {
		l, v := ex.argStr(layout, "time layout"), ex.argStr(value, "time text")
		t, err := time.ParseInLocation(l, v, time.UTC)
		if err != nil {
			return TupleV{TimeV{Z: true}, ex.newErr("time", "parsing time: "+err.Error())}
		}
		return TupleV{TimeV{T: ex.tf.BVi(t.UnixNano(), 64)}, IfaceV{}}
	}
	// the location argument is time.UTC in the code under test
	reg("time.ParseInLocation", func(ex *Exec, a []Val) Val { return parse(ex, a[0], a[1]) })
	reg("time.Parse", func(ex *Exec, a []Val) Val { return parse(ex, a[0], a[1]) })
	reg("time.Now", func(ex *Exec, a []Val) Val {
		ex.res.Covers["wall-clock read time.Now at "+ex.curPos()] = true
		return TimeV{T: ex.freshVar("now", BVSort(64))}
	})
	reg("(time.Duration).String", func(ex *Exec, a []Val) Val { return StrV{Opaque: true, Tag: "duration"} })
	reg("(time.Duration).Seconds", func(ex *Exec, a []Val) Val { return OpaqueV{"float"} })

	reg("github.com/cosmos/cosmos-sdk/types/address.MustLengthPrefix", func(ex *Exec, a []Val) Val {
		bs := ex.bytesOf(a[0])
		if len(bs) == 0 {
			return a[0]
		}
		if len(bs) > 255 {
			ex.goPanic("address length should be max 255 bytes")
		}
		return ex.mkBytes(append([]*Term{ex.tf.BVu(uint64(len(bs)), 8)}, bs...))
	})
	reg("github.com/cosmos/cosmos-sdk/types/address.LengthPrefix", func(ex *Exec, a []Val) Val {
		bs := ex.bytesOf(a[0])
		if len(bs) == 0 {
			return TupleV{a[0], IfaceV{}}
		}
		if len(bs) > 255 {
			return TupleV{SliceV{Nil: true}, ex.newErr("sdk/addr", "address too long")}
		}
		return TupleV{ex.mkBytes(append([]*Term{ex.tf.BVu(uint64(len(bs)), 8)}, bs...)), IfaceV{}}
	})
	reg(T+"ValidateDenom", func(ex *Exec, a []Val) Val {
		d := ex.mustConcreteStr(a[0], "ValidateDenom")
		ok := len(d) >= 3 && len(d) <= 128
		for i := 0; ok && i < len(d); i++ {
			c := d[i]
			alpha := (c >= 'a' && c <= 'z') || (c >= 'A' && c <= 'Z')
			if i == 0 {
				ok = alpha
			} else {
				ok = alpha || (c >= '0' && c <= '9') || strings.IndexByte("/:._-", c) >= 0
			}
		}
		if !ok {
			return ex.newErr("sdk/denom", "invalid denom: "+d)
		}
		return IfaceV{}
	})

	for _, tn := range []string{"DecCoins", "DecCoin", "Coins", "Coin"} {
		tn := tn
		reg("("+T+tn+").String", func(ex *Exec, a []Val) Val { return StrV{Opaque: true, Tag: tn + "-string"} })
	}

	reg("(github.com/cosmos/cosmos-sdk/x/staking/types.CommissionRates).Validate", func(ex *Exec, a []Val) Val {
		cr := a[0].(StructV) // Rate, MaxRate, MaxChangeRate
		rate, maxRate, maxChange := ex.decArg(cr.F[0], "CommissionRates.Rate"), ex.decArg(cr.F[1], "CommissionRates.MaxRate"), ex.decArg(cr.F[2], "CommissionRates.MaxChangeRate")
		tf := ex.tf
		zero, oneD := tf.Inti(0), tf.IntConst(precision)
		bad := tf.Or(tf.ILt(maxRate, zero), tf.IGt(maxRate, oneD), tf.ILt(rate, zero), tf.IGt(rate, maxRate), tf.ILt(maxChange, zero), tf.IGt(maxChange, maxRate))
		if ex.Branch(bad) {
			return ex.newErr("staking/commission", "invalid commission rates")
		}
		return IfaceV{}
	})

	// ---------- events (pure constructors) ----------
	reg(T+"NewEvent", func(ex *Exec, a []Val) Val { return ex.zeroOfResult(T + "NewEvent") })
	reg(T+"NewAttribute", func(ex *Exec, a []Val) Val { return ex.zeroOfResult(T + "NewAttribute") })
}

// zeroOfResult: zero value of the (single) result type of an external function, by name lookup.
func (ex *Exec) zeroOfResult(name string) Val {
	i := strings.LastIndex(name, ".")
	pkg, fn := name[:i], name[i+1:]
	if p := ex.w.pkgs[pkg]; p != nil {
		if f := p.Func(fn); f != nil {
			res := f.Signature.Results()
			if res.Len() == 1 {
				return ex.zero(res.At(0).Type())
			}
			return ex.zero(res)
		}
	}
	ex.unmodelled("zeroOfResult " + name)
	return nil
}

var _ = hex.EncodeToString
var _ = big.NewInt
var _ types.Type

// ---------- regexp (concrete patterns and subjects only), abi packing ----------

type RegexObj struct{ re *regexp.Regexp }

func init() {
	reg("regexp.MustCompile", func(ex *Exec, a []Val) Val {
		return PtrV{C: ex.newCell(&RegexObj{re: regexp.MustCompile(ex.argStr(a[0], "regexp pattern"))})}
	})
	reg("(*regexp.Regexp).FindStringSubmatch", func(ex *Exec, a []Val) Val {
		r := ex.load(a[0].(PtrV)).(*RegexObj)
		m := r.re.FindStringSubmatch(ex.argStr(a[1], "regexp subject"))
		if m == nil {
			return SliceV{Nil: true}
		}
		el := make([]Val, len(m))
		for i := range m {
			el[i] = ex.mkStr(m[i])
		}
		return ex.newSlice(el, len(el))
	})
	reg("(*regexp.Regexp).MatchString", func(ex *Exec, a []Val) Val {
		r := ex.load(a[0].(PtrV)).(*RegexObj)
		return ex.tf.Bool(r.re.MatchString(ex.argStr(a[1], "regexp subject")))
	})
	// abi.Arguments.Pack: the packed output is an opaque non-nil byte string; nothing in the
	// handlers reads it back.
	reg("github.com/ethereum/go-ethereum/accounts/abi.NewType", func(ex *Exec, a []Val) Val {
		// zero abi.Type (the packed bytes are opaque anyway) and a nil error
		return ex.zeroOfResult("github.com/ethereum/go-ethereum/accounts/abi.NewType")
	})
	reg("(github.com/ethereum/go-ethereum/accounts/abi.Arguments).Pack", func(ex *Exec, a []Val) Val {
		return TupleV{ex.mkBytes(ex.constBytes("\x00abi-packed-output")), IfaceV{}}
	})
}
