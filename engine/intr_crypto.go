package main

// Cryptography and decoding stubs: hash functions as injective-looking uninterpreted results
// (fresh bytes per distinct input, memoised), signature verification as a nondeterministic
// boolean, JSON decoding as an arbitrary value of the target type or an error.

import (
	"crypto/sha256"
	"encoding/json"
	"fmt"
	"go/types"
	"strings"
)

func (ex *Exec) uninterpretedHash(tag string, in []*Term, n int) []*Term {
	var sb strings.Builder
	sb.WriteString(tag)
	for _, t := range in {
		fmt.Fprintf(&sb, ",%d", t.ID)
	}
	key := sb.String()
	if ex.hashMemo == nil {
		ex.hashMemo = map[string][]*Term{}
	}
	if h, ok := ex.hashMemo[key]; ok {
		return h
	}
	// concrete, pairwise distinct tokens: the function is modelled as injective on syntactically
	// distinct inputs (no collisions, no forgeries)
	ex.hashSeq++
	out := make([]*Term, n)
	for i := range out {
		var b byte
		switch {
		case i == 0:
			b = 0xA0 ^ byte(len(tag))
		case i == 1:
			b = byte(ex.hashSeq >> 8)
		case i == 2:
			b = byte(ex.hashSeq)
		default:
			b = byte(0x5a ^ i)
		}
		out[i] = ex.tf.BVu(uint64(b), 8)
	}
	ex.hashMemo[key] = out
	return out
}

// symbolic value of a type for decoders: scalars fresh, everything else zero
func (ex *Exec) arbitraryOf(t types.Type, tag string) Val {
	switch typeKey(t) {
	case tkInt:
		return BigV{T: ex.freshVar(tag, IntSort)}
	case tkDec:
		return DecV{T: ex.freshVar(tag, IntSort)}
	}
	switch u := t.Underlying().(type) {
	case *types.Basic:
		if u.Info()&types.IsInteger != 0 {
			return ex.freshVar(tag, BVSort(intWidth(u)))
		}
		if u.Info()&types.IsBoolean != 0 {
			return ex.freshVar(tag, BoolSort)
		}
		if u.Info()&types.IsString != 0 {
			return StrV{Opaque: true, Tag: "decoded-string"}
		}
	case *types.Struct:
		f := make([]Val, u.NumFields())
		for i := range f {
			f[i] = ex.arbitraryOf(u.Field(i).Type(), fmt.Sprintf("%s_%s", tag, u.Field(i).Name()))
		}
		return StructV{F: f}
	case *types.Pointer:
		if typeKey(u.Elem()) == tkBig {
			return ex.newBigPtr(ex.freshVar(tag, IntSort))
		}
	}
	return ex.zero(t)
}

// keccakTerms: real Keccak-256 for concrete input, an injective token otherwise.
func (ex *Exec) keccakTerms(in []*Term) []*Term {
	if cs, ok := concreteBytes(in); ok {
		sum := keccak256([]byte(cs))
		return ex.constBytes(string(sum[:]))
	}
	return ex.uninterpretedHash("keccak", in, 32)
}

func init() {
	reg("github.com/ethereum/go-ethereum/crypto.Keccak256Hash", func(ex *Exec, a []Val) Val {
		var in []*Term
		for _, s := range ex.sliceElems(a[0].(SliceV)) {
			if b, ok := s.(BlobV); ok {
				in = append(in, ex.valTerms(b.V)...)
				continue
			}
			in = append(in, ex.bytesOf(s)...)
		}
		h := ex.keccakTerms(in)
		e := make([]Val, 32)
		for i, t := range h {
			e[i] = t
		}
		return ArrayV{E: e}
	})
	reg("github.com/ethereum/go-ethereum/crypto.Keccak256", func(ex *Exec, a []Val) Val {
		var in []*Term
		for _, s := range ex.sliceElems(a[0].(SliceV)) {
			in = append(in, ex.bytesOf(s)...)
		}
		return ex.mkBytes(ex.keccakTerms(in))
	})
	sha := func(ex *Exec, in []*Term) []*Term {
		if cs, ok := concreteBytes(in); ok {
			sum := sha256.Sum256([]byte(cs))
			return ex.constBytes(string(sum[:]))
		}
		return ex.uninterpretedHash("sha256", in, 32)
	}
	reg("crypto/sha256.Sum256", func(ex *Exec, a []Val) Val {
		h := sha(ex, ex.bytesOf(a[0]))
		e := make([]Val, 32)
		for i, t := range h {
			e[i] = t
		}
		return ArrayV{E: e}
	})
	intrinsics["github.com/minio/sha256-simd.Sum256"] = intrinsics["crypto/sha256.Sum256"]
	reg("github.com/cometbft/cometbft/crypto/tmhash.SumTruncated", func(ex *Exec, a []Val) Val {
		return ex.mkBytes(sha(ex, ex.bytesOf(a[0]))[:20])
	})

	// BLS as an ideal functionality: the harness key (verifrt.BLSPubKey) parses, other concrete
	// bytes do not, symbolic bytes may or may not; a signature verifies iff it was produced by
	// verifrt.BLSSign for exactly that message under the harness key.
	const BL = "github.com/prysmaticlabs/prysm/v4/crypto/bls/blst."
	pkBytes := func(ex *Exec) []*Term {
		if ex.blsPK == nil {
			ex.blsPK = ex.constBytes("\xa5BLS-HARNESS-PUBLIC-KEY-48-BYTES-COMPRESSED-G1-0001")[:48]
		}
		return ex.blsPK
	}
	reg(rtPkg+"BLSPubKey", func(ex *Exec, a []Val) Val { return ex.mkBytes(pkBytes(ex)) })
	reg(rtPkg+"BLSSign", func(ex *Exec, a []Val) Val {
		msg := ex.bytesOf(a[0])
		sig := ex.uninterpretedHash("blssig", msg, 96)
		if ex.blsSigs == nil {
			ex.blsSigs = map[string][]*Term{}
		}
		ex.blsSigs[termsKey(sig)] = msg
		return ex.mkBytes(sig)
	})
	reg(BL+"PublicKeyFromBytes", func(ex *Exec, a []Val) Val {
		b := ex.bytesOf(a[0])
		if sv, ok := a[0].(SliceV); ok && sv.Nil {
			b = nil
		}
		isPK := ex.bytesEq(b, pkBytes(ex))
		if ex.Branch(isPK) {
			return TupleV{nativeIface(&OpaqueObj{"bls.PublicKey"}), IfaceV{}}
		}
		if _, conc := concreteBytes(b); !conc {
			if ex.Branch(ex.freshVar("bls_pubkey_parses", BoolSort)) {
				return TupleV{nativeIface(&OpaqueObj{"bls.PublicKey(other)"}), IfaceV{}}
			}
		}
		return TupleV{IfaceV{}, ex.newErr("bls", "could not unmarshal bytes into public key")}
	})
	reg(BL+"VerifySignature", func(ex *Exec, a []Val) Val {
		sig := ex.bytesOf(a[0])
		var msg []*Term
		switch m := a[1].(type) {
		case ArrayV:
			msg = ex.bytesOf(m)
		default:
			msg = ex.bytesOf(m)
		}
		pk, _ := a[2].(IfaceV)
		if o, ok := pk.V.(*OpaqueObj); !ok || o.Tag != "bls.PublicKey" {
			return TupleV{ex.tf.F, IfaceV{}}
		}
		if len(sig) != 96 {
			return TupleV{ex.tf.F, ex.newErr("bls", "could not convert bytes to signature")}
		}
		if signed, ok := ex.blsSigs[termsKey(sig)]; ok {
			return TupleV{ex.bytesEq(signed, msg), IfaceV{}}
		}
		// a signature that BLSSign did not produce: invalid encoding or simply not valid
		if ex.Branch(ex.freshVar("bls_sig_decodes", BoolSort)) {
			return TupleV{ex.tf.F, IfaceV{}}
		}
		return TupleV{ex.tf.F, ex.newErr("bls", "could not convert bytes to signature")}
	})

	reg("encoding/json.Marshal", func(ex *Exec, a []Val) Val {
		iv := a[0].(IfaceV)
		if iv.T == nil {
			return TupleV{ex.mkBytes(ex.constBytes("null")), IfaceV{}}
		}
		v := iv.V
		typ := iv.T
		if p, ok := v.(PtrV); ok && p.C != nil {
			if pt, ok := typ.Underlying().(*types.Pointer); ok {
				v = ex.load(p)
				typ = pt.Elem()
			}
		}
		return TupleV{BlobV{V: ex.freeze(v), Typ: typ}, IfaceV{}}
	})
	reg("encoding/json.Unmarshal", func(ex *Exec, a []Val) Val {
		iv := a[1].(IfaceV)
		p, ok := iv.V.(PtrV)
		if !ok || p.C == nil {
			return ex.newErr("json", "Unmarshal(nil)")
		}
		pt0, _ := iv.T.Underlying().(*types.Pointer)
		if b, ok := a[0].(BlobV); ok && pt0 != nil {
			// value produced by json.Marshal in this run: decoding is the inverse for identical types
			if types.Identical(b.Typ, pt0.Elem()) {
				ex.store(p, ex.thaw(b.V))
				return IfaceV{}
			}
			return ex.newErr("json", "cannot unmarshal into a different type")
		}
		if cs, ok := ex.concreteStr(a[0]); ok {
			if !json.Valid([]byte(cs)) {
				return ex.newErr("json", "invalid JSON input")
			}
			if pt0 != nil {
				if r, handled := ex.jsonIntoFlatStruct(cs, p, pt0.Elem()); handled {
					return r
				}
			}
		}
		if !ex.Branch(ex.freshVar("json_ok", BoolSort)) {
			return ex.newErr("json", "invalid JSON input")
		}
		pt, _ := iv.T.Underlying().(*types.Pointer)
		ex.store(p, ex.arbitraryOf(pt.Elem(), "json"))
		return IfaceV{}
	})
}

func termsKey(ts []*Term) string {
	var sb strings.Builder
	for _, t := range ts {
		fmt.Fprintf(&sb, "%d,", t.ID)
	}
	return sb.String()
}

// valTerms collects the scalar terms of a (frozen) value in a canonical order.
func (ex *Exec) valTerms(v Val) []*Term {
	var out []*Term
	var rec func(v Val)
	rec = func(v Val) {
		switch x := v.(type) {
		case *Term:
			out = append(out, x)
		case BigV:
			if !x.Nil {
				out = append(out, x.T)
			}
		case DecV:
			if !x.Nil {
				out = append(out, x.T)
			}
		case StrV:
			out = append(out, x.B...)
		case StructV:
			for _, f := range x.F {
				rec(f)
			}
		case ArrayV:
			for _, f := range x.E {
				rec(f)
			}
		case FrozenSlice:
			for _, f := range x.E {
				rec(f)
			}
		case FrozenPtr:
			if !x.Nil {
				rec(x.V)
			}
		case BytesVal:
			out = append(out, x.B...)
		case BlobV:
			rec(x.V)
		}
	}
	rec(v)
	return out
}
