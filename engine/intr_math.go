package main

// Intrinsics for cosmossdk.io/math (v1.2.0) Int / LegacyDec / Uint and math/big.Int,
// transcribed from the library source. Big numbers are SMT Ints.

import (
	"fmt"
	"math/big"
)

type Intrinsic func(ex *Exec, args []Val) Val

var intrinsics = map[string]Intrinsic{}

func reg(name string, f Intrinsic) { intrinsics[name] = f }

var (
	pow256    = new(big.Int).Lsh(big.NewInt(1), 256)
	pow315    = new(big.Int).Lsh(big.NewInt(1), 315)
	precision = new(big.Int).Exp(big.NewInt(10), big.NewInt(18), nil)
	precSq    = new(big.Int).Mul(precision, precision)
	fivePrec  = new(big.Int).Quo(precision, big.NewInt(2))
)

func (ex *Exec) bigArg(v Val, what string) *Term {
	b, ok := v.(BigV)
	if !ok {
		panic(engineErr(fmt.Sprintf("%s: expected BigV got %T", what, v)))
	}
	if b.Nil {
		ex.goPanic("nil pointer dereference (uninitialised sdk.Int in " + what + ")")
	}
	return b.T
}

func (ex *Exec) decArg(v Val, what string) *Term {
	d, ok := v.(DecV)
	if !ok {
		panic(engineErr(fmt.Sprintf("%s: expected DecV got %T", what, v)))
	}
	if d.Nil {
		ex.goPanic("nil pointer dereference (uninitialised LegacyDec in " + what + ")")
	}
	return d.T
}

// *big.Int argument (pointer to cell holding BigV)
func (ex *Exec) bigPtrArg(v Val, what string) *Term {
	p, ok := v.(PtrV)
	if !ok {
		panic(engineErr(fmt.Sprintf("%s: expected *big.Int got %T", what, v)))
	}
	if p.C == nil {
		ex.goPanic("nil pointer dereference (*big.Int in " + what + ")")
	}
	return ex.load(p).(BigV).T
}

func (ex *Exec) newBigPtr(t *Term) PtrV {
	return PtrV{C: ex.newCell(BigV{T: t})}
}

func (ex *Exec) checkBits(t *Term, limit *big.Int, msg string) {
	tf := ex.tf
	if ex.withinAbs(t, limit) {
		// implied by interval reasoning; keep it as a lemma for the solver
		ex.axiom(tf.And(tf.ILt(t, tf.IntConst(limit)), tf.IGt(t, tf.IntConst(new(big.Int).Neg(limit)))))
		return
	}
	over := tf.Or(tf.IGe(t, tf.IntConst(limit)), tf.ILe(t, tf.IntConst(new(big.Int).Neg(limit))))
	if ex.Branch(over) {
		ex.goPanic(msg)
	}
}

// truncated division (big.Int.Quo / QuoRem): caller guarantees b != 0 on this path.
func (ex *Exec) truncDivRem(a, b *Term) (*Term, *Term) {
	tf := ex.tf
	if a.IsConst() && b.IsConst() {
		q, r := new(big.Int).QuoRem(a.C, b.C, new(big.Int))
		return tf.IntConst(q), tf.IntConst(r)
	}
	if b.IsConst() && b.C.Cmp(one) == 0 {
		return a, tf.Inti(0)
	}
	if ex.w.nativeDiv && b.IsConst() && b.C.Sign() > 0 {
		neg := tf.ILt(a, tf.Inti(0))
		aa := tf.IAbs(a)
		q := tf.EDiv(aa, b)
		r := tf.EMod(aa, b)
		return tf.Ite(neg, tf.INeg(q), q), tf.Ite(neg, tf.INeg(r), r)
	}
	if qr, ok := ex.divMemo[[2]int{a.ID, b.ID}]; ok {
		return qr[0], qr[1]
	}
	q := ex.freshVar("q", IntSort)
	r := ex.freshVar("r", IntSort)
	ex.divMemo[[2]int{a.ID, b.ID}] = [2]*Term{q, r}
	ex.freshDefs[q.Name] = FreshDef{"tq", a, b}
	ex.freshDefs[r.Name] = FreshDef{"tr", a, b}
	zero := tf.Inti(0)
	ax := tf.And(
		tf.Eq(a, tf.IAdd(tf.IMul(q, b), r)),
		tf.ILt(tf.IAbs(r), tf.IAbs(b)),
		tf.Or(tf.Eq(r, zero), tf.Eq(tf.IGt(r, zero), tf.IGt(a, zero))),
	)
	ex.axiom(tf.Implies(tf.Not(tf.Eq(b, zero)), ax))
	ex.divLemmas(a, b, q, r)
	return q, r
}

// divLemmas adds consequences of q = a div b that are implied by the defining axiom but that the
// solver would have to derive by non-linear reasoning: sign facts, and for a = f1*f2*... the
// monotonicity facts  f_i <= b => q <= rest,  f_i >= b => q >= rest,  f_i >= 10^18*b => q >= 10^18*rest.
func (ex *Exec) divLemmas(a, b, q, r *Term) {
	tf := ex.tf
	zero := tf.Inti(0)
	posB := tf.IGt(b, zero)
	ex.axiom(tf.Implies(tf.And(tf.IGe(a, zero), posB), tf.And(tf.IGe(q, zero), tf.IGe(r, zero), tf.ILe(q, a))))
	if b.IsConst() {
		return
	}
	var factors []*Term
	var flat func(t *Term)
	flat = func(t *Term) {
		if t.Op == "*" && len(t.Args) == 2 {
			flat(t.Args[0])
			flat(t.Args[1])
			return
		}
		factors = append(factors, t)
	}
	flat(a)
	if len(factors) < 2 || len(factors) > 4 {
		return
	}
	nonneg := []*Term{posB}
	for _, f := range factors {
		nonneg = append(nonneg, tf.IGe(f, zero))
	}
	nn := tf.And(nonneg...)
	P := tf.IntConst(precision)
	for i, f := range factors {
		if f.IsConst() {
			continue
		}
		rest := tf.Inti(1)
		for j, g := range factors {
			if j != i {
				rest = tf.IMul(rest, g)
			}
		}
		ex.axiom(tf.Implies(tf.And(nn, tf.ILe(f, b)), tf.ILe(q, rest)))
		ex.axiom(tf.Implies(tf.And(nn, tf.IGe(f, b)), tf.IGe(q, rest)))
		ex.axiom(tf.Implies(tf.And(nn, tf.IGe(f, tf.IMul(P, b))), tf.IGe(q, tf.IMul(P, rest))))
		ex.axiom(tf.Implies(tf.And(nn, tf.Eq(f, b)), tf.And(tf.Eq(q, rest), tf.Eq(r, zero))))
	}
}

func (ex *Exec) truncDiv(a, b *Term) *Term {
	q, _ := ex.truncDivRem(a, b)
	return q
}

// euclidean modulus (big.Int.Mod, Div)
func (ex *Exec) euclidDivMod(a, b *Term) (*Term, *Term) {
	tf := ex.tf
	if a.IsConst() && b.IsConst() {
		q, m := new(big.Int).DivMod(a.C, b.C, new(big.Int))
		return tf.IntConst(q), tf.IntConst(m)
	}
	if qr, ok := ex.edivMemo[[2]int{a.ID, b.ID}]; ok {
		return qr[0], qr[1]
	}
	q := ex.freshVar("eq", IntSort)
	m := ex.freshVar("em", IntSort)
	ex.edivMemo[[2]int{a.ID, b.ID}] = [2]*Term{q, m}
	ex.freshDefs[q.Name] = FreshDef{"eq", a, b}
	ex.freshDefs[m.Name] = FreshDef{"em", a, b}
	zero := tf.Inti(0)
	ax := tf.And(tf.Eq(a, tf.IAdd(tf.IMul(q, b), m)), tf.ILe(zero, m), tf.ILt(m, tf.IAbs(b)))
	ex.axiom(tf.Implies(tf.Not(tf.Eq(b, zero)), ax))
	return q, m
}

// chopPrecisionAndRound: banker's rounding of x / 10^18
func (ex *Exec) chopRound(x *Term) *Term {
	tf := ex.tf
	if x.IsConst() {
		neg := x.C.Sign() < 0
		ax := new(big.Int).Abs(x.C)
		q, r := new(big.Int).QuoRem(ax, precision, new(big.Int))
		switch r.Cmp(fivePrec) {
		case 1:
			q.Add(q, one)
		case 0:
			if q.Bit(0) == 1 {
				q.Add(q, one)
			}
		}
		if neg {
			q.Neg(q)
		}
		return tf.IntConst(q)
	}
	neg := tf.ILt(x, tf.Inti(0))
	ax := tf.IAbs(x)
	q, r := ex.truncDivRem(ax, tf.IntConst(precision))
	two := tf.Inti(2)
	r2 := tf.IMul(two, r)
	P := tf.IntConst(precision)
	q1 := tf.IAdd(q, tf.Inti(1))
	even := tf.Eq(tf.EMod(q, two), tf.Inti(0))
	res := tf.Ite(tf.ILt(r2, P), q, tf.Ite(tf.IGt(r2, P), q1, tf.Ite(even, q, q1)))
	return tf.Ite(neg, tf.INeg(res), res)
}

func (ex *Exec) chopRoundUp(x *Term) *Term {
	tf := ex.tf
	neg := tf.ILt(x, tf.Inti(0))
	ax := tf.IAbs(x)
	q, r := ex.truncDivRem(ax, tf.IntConst(precision))
	up := tf.Ite(tf.Eq(r, tf.Inti(0)), q, tf.IAdd(q, tf.Inti(1)))
	return tf.Ite(neg, tf.INeg(q), up)
}

func (ex *Exec) chopTrunc(x *Term) *Term {
	return ex.truncDiv(x, ex.tf.IntConst(precision))
}

func (ex *Exec) isInt64(t *Term) *Term {
	tf := ex.tf
	lo := new(big.Int).Lsh(big.NewInt(-1), 63)
	hi := new(big.Int).Lsh(big.NewInt(1), 63)
	return tf.And(tf.IGe(t, tf.IntConst(lo)), tf.ILt(t, tf.IntConst(hi)))
}
func (ex *Exec) isUint64(t *Term) *Term {
	tf := ex.tf
	hi := new(big.Int).Lsh(big.NewInt(1), 64)
	return tf.And(tf.IGe(t, tf.Inti(0)), tf.ILt(t, tf.IntConst(hi)))
}

func (ex *Exec) cmpTerm(a, b *Term) *Term {
	tf := ex.tf
	return tf.Ite(tf.ILt(a, b), tf.BVi(-1, 64), tf.Ite(tf.Eq(a, b), tf.BVi(0, 64), tf.BVi(1, 64)))
}

func (ex *Exec) signTerm(a *Term) *Term { return ex.cmpTerm(a, ex.tf.Inti(0)) }

func (ex *Exec) bigString(t *Term) StrV {
	if t.IsConst() {
		return ex.mkStr(t.C.String())
	}
	return StrV{Opaque: true, Tag: "bigint-string"}
}

func decString(c *big.Int) string {
	neg := c.Sign() < 0
	a := new(big.Int).Abs(c)
	q, r := new(big.Int).QuoRem(a, precision, new(big.Int))
	s := fmt.Sprintf("%s.%018s", q.String(), r.String())
	if neg {
		s = "-" + s
	}
	return s
}

func init() {
	const I = "(cosmossdk.io/math.Int)."
	const D = "(cosmossdk.io/math.LegacyDec)."
	const M = "cosmossdk.io/math."
	const B = "(*math/big.Int)."

	// ----- sdkmath.Int constructors
	reg(M+"NewInt", func(ex *Exec, a []Val) Val { return BigV{T: ex.tf.BV2Int(a[0].(*Term), true)} })
	reg(M+"NewIntFromUint64", func(ex *Exec, a []Val) Val { return BigV{T: ex.tf.BV2Int(a[0].(*Term), false)} })
	reg(M+"ZeroInt", func(ex *Exec, a []Val) Val { return BigV{T: ex.tf.Inti(0)} })
	reg(M+"OneInt", func(ex *Exec, a []Val) Val { return BigV{T: ex.tf.Inti(1)} })
	reg(M+"NewIntFromBigInt", func(ex *Exec, a []Val) Val {
		p := a[0].(PtrV)
		if p.C == nil {
			return BigV{Nil: true}
		}
		t := ex.load(p).(BigV).T
		ex.checkBits(t, pow256, "NewIntFromBigInt() out of bound")
		return BigV{T: t}
	})
	intrinsics[M+"NewIntFromBigIntMut"] = intrinsics[M+"NewIntFromBigInt"]
	reg(M+"NewIntWithDecimal", func(ex *Exec, a []Val) Val {
		n := ex.tf.BV2Int(a[0].(*Term), true)
		dec := ex.concretizeInt(a[1].(*Term), 0, 77, "NewIntWithDecimal")
		if dec < 0 {
			ex.goPanic("NewIntWithDecimal() decimal is negative")
		}
		e := new(big.Int).Exp(big.NewInt(10), big.NewInt(int64(dec)), nil)
		t := ex.tf.IMul(n, ex.tf.IntConst(e))
		ex.checkBits(t, pow256, "NewIntWithDecimal() out of bound")
		return BigV{T: t}
	})
	reg(M+"NewIntFromString", func(ex *Exec, a []Val) Val {
		s, ok := ex.concreteStr(a[0])
		if !ok {
			// arbitrary string: either not a number, or some integer within 256 bits
			okv := ex.freshVar("strnum_ok", BoolSort)
			if ex.Branch(okv) {
				v := ex.freshVar("strnum", IntSort)
				ex.axiom(ex.tf.And(ex.tf.ILt(v, ex.tf.IntConst(pow256)), ex.tf.IGt(v, ex.tf.IntConst(new(big.Int).Neg(pow256)))))
				return TupleV{BigV{T: v}, ex.tf.T}
			}
			return TupleV{BigV{Nil: true}, ex.tf.F}
		}
		v, ok2 := new(big.Int).SetString(s, 0)
		if !ok2 || v.BitLen() > 256 {
			return TupleV{BigV{Nil: true}, ex.tf.F}
		}
		return TupleV{BigV{T: ex.tf.IntConst(v)}, ex.tf.T}
	})
	reg(M+"MinInt", func(ex *Exec, a []Val) Val {
		x, y := ex.bigArg(a[0], "MinInt"), ex.bigArg(a[1], "MinInt")
		return BigV{T: ex.tf.Ite(ex.tf.ILt(x, y), x, y)}
	})
	reg(M+"MaxInt", func(ex *Exec, a []Val) Val {
		x, y := ex.bigArg(a[0], "MaxInt"), ex.bigArg(a[1], "MaxInt")
		return BigV{T: ex.tf.Ite(ex.tf.ILt(x, y), y, x)}
	})

	// ----- sdkmath.Int methods
	reg(I+"IsNil", func(ex *Exec, a []Val) Val { return ex.tf.Bool(a[0].(BigV).Nil) })
	reg(I+"BigInt", func(ex *Exec, a []Val) Val {
		b := a[0].(BigV)
		if b.Nil {
			return PtrV{}
		}
		return ex.newBigPtr(b.T)
	})
	intrinsics[I+"BigIntMut"] = intrinsics[I+"BigInt"]
	reg(I+"IsZero", func(ex *Exec, a []Val) Val { return ex.tf.Eq(ex.bigArg(a[0], "IsZero"), ex.tf.Inti(0)) })
	reg(I+"IsNegative", func(ex *Exec, a []Val) Val { return ex.tf.ILt(ex.bigArg(a[0], "IsNegative"), ex.tf.Inti(0)) })
	reg(I+"IsPositive", func(ex *Exec, a []Val) Val { return ex.tf.IGt(ex.bigArg(a[0], "IsPositive"), ex.tf.Inti(0)) })
	reg(I+"Sign", func(ex *Exec, a []Val) Val { return ex.signTerm(ex.bigArg(a[0], "Sign")) })
	cmp := func(name string, f func(ex *Exec, x, y *Term) *Term) {
		reg(I+name, func(ex *Exec, a []Val) Val { return f(ex, ex.bigArg(a[0], name), ex.bigArg(a[1], name)) })
		reg(D+name, func(ex *Exec, a []Val) Val { return f(ex, ex.decArg(a[0], name), ex.decArg(a[1], name)) })
	}
	cmp("Equal", func(ex *Exec, x, y *Term) *Term { return ex.tf.Eq(x, y) })
	cmp("GT", func(ex *Exec, x, y *Term) *Term { return ex.tf.IGt(x, y) })
	cmp("GTE", func(ex *Exec, x, y *Term) *Term { return ex.tf.IGe(x, y) })
	cmp("LT", func(ex *Exec, x, y *Term) *Term { return ex.tf.ILt(x, y) })
	cmp("LTE", func(ex *Exec, x, y *Term) *Term { return ex.tf.ILe(x, y) })

	arith := func(name string, f func(ex *Exec, x, y *Term) *Term) {
		reg(I+name, func(ex *Exec, a []Val) Val {
			return BigV{T: f(ex, ex.bigArg(a[0], name), ex.bigArg(a[1], name))}
		})
		reg(I+name+"Raw", func(ex *Exec, a []Val) Val {
			return BigV{T: f(ex, ex.bigArg(a[0], name), ex.tf.BV2Int(a[1].(*Term), true))}
		})
	}
	arith("Add", func(ex *Exec, x, y *Term) *Term {
		r := ex.tf.IAdd(x, y)
		ex.checkBits(r, pow256, "Int overflow")
		return r
	})
	arith("Sub", func(ex *Exec, x, y *Term) *Term {
		r := ex.tf.ISub(x, y)
		ex.checkBits(r, pow256, "Int overflow")
		return r
	})
	arith("Mul", func(ex *Exec, x, y *Term) *Term {
		r := ex.tf.IMul(x, y)
		ex.checkBits(r, pow256, "Int overflow")
		return r
	})
	arith("Quo", func(ex *Exec, x, y *Term) *Term {
		if ex.Branch(ex.tf.Eq(y, ex.tf.Inti(0))) {
			ex.goPanic("Division by zero")
		}
		return ex.truncDiv(x, y)
	})
	arith("Mod", func(ex *Exec, x, y *Term) *Term {
		if ex.Branch(ex.tf.Eq(y, ex.tf.Inti(0))) {
			ex.goPanic("division-by-zero")
		}
		_, m := ex.euclidDivMod(x, y)
		return m
	})
	reg(I+"Neg", func(ex *Exec, a []Val) Val { return BigV{T: ex.tf.INeg(ex.bigArg(a[0], "Neg"))} })
	reg(I+"Abs", func(ex *Exec, a []Val) Val { return BigV{T: ex.tf.IAbs(ex.bigArg(a[0], "Abs"))} })
	reg(I+"String", func(ex *Exec, a []Val) Val {
		b := a[0].(BigV)
		if b.Nil {
			return ex.mkStr("<nil>")
		}
		return ex.bigString(b.T)
	})
	reg(I+"IsInt64", func(ex *Exec, a []Val) Val { return ex.isInt64(ex.bigArg(a[0], "IsInt64")) })
	reg(I+"IsUint64", func(ex *Exec, a []Val) Val { return ex.isUint64(ex.bigArg(a[0], "IsUint64")) })
	reg(I+"Int64", func(ex *Exec, a []Val) Val {
		t := ex.bigArg(a[0], "Int64")
		if !ex.Branch(ex.isInt64(t)) {
			ex.goPanic("Int64() out of bound")
		}
		return ex.tf.Int2BV(t, 64)
	})
	reg(I+"Uint64", func(ex *Exec, a []Val) Val {
		t := ex.bigArg(a[0], "Uint64")
		if !ex.Branch(ex.isUint64(t)) {
			ex.goPanic("Uint64() out of bounds")
		}
		return ex.tf.Int2BV(t, 64)
	})
	reg(I+"ToLegacyDec", func(ex *Exec, a []Val) Val {
		return DecV{T: ex.tf.IMul(ex.bigArg(a[0], "ToLegacyDec"), ex.tf.IntConst(precision))}
	})

	// ----- LegacyDec constructors
	reg(M+"LegacyZeroDec", func(ex *Exec, a []Val) Val { return DecV{T: ex.tf.Inti(0)} })
	reg(M+"LegacyOneDec", func(ex *Exec, a []Val) Val { return DecV{T: ex.tf.IntConst(precision)} })
	reg(M+"LegacySmallestDec", func(ex *Exec, a []Val) Val { return DecV{T: ex.tf.Inti(1)} })
	reg(M+"LegacyNewDec", func(ex *Exec, a []Val) Val {
		return DecV{T: ex.tf.IMul(ex.tf.BV2Int(a[0].(*Term), true), ex.tf.IntConst(precision))}
	})
	precMul := func(ex *Exec, p Val) *Term {
		prec := ex.concretizeInt(p.(*Term), 0, 18, "precision")
		if prec < 0 || prec > 18 {
			ex.goPanic("too much precision")
		}
		return ex.tf.IntConst(new(big.Int).Exp(big.NewInt(10), big.NewInt(int64(18-prec)), nil))
	}
	reg(M+"LegacyNewDecWithPrec", func(ex *Exec, a []Val) Val {
		return DecV{T: ex.tf.IMul(ex.tf.BV2Int(a[0].(*Term), true), precMul(ex, a[1]))}
	})
	reg(M+"LegacyNewDecFromBigInt", func(ex *Exec, a []Val) Val {
		return DecV{T: ex.tf.IMul(ex.bigPtrArg(a[0], "LegacyNewDecFromBigInt"), ex.tf.IntConst(precision))}
	})
	reg(M+"LegacyNewDecFromBigIntWithPrec", func(ex *Exec, a []Val) Val {
		return DecV{T: ex.tf.IMul(ex.bigPtrArg(a[0], "LegacyNewDecFromBigIntWithPrec"), precMul(ex, a[1]))}
	})
	reg(M+"LegacyNewDecFromInt", func(ex *Exec, a []Val) Val {
		return DecV{T: ex.tf.IMul(ex.bigArg(a[0], "LegacyNewDecFromInt"), ex.tf.IntConst(precision))}
	})
	reg(M+"LegacyNewDecFromIntWithPrec", func(ex *Exec, a []Val) Val {
		return DecV{T: ex.tf.IMul(ex.bigArg(a[0], "LegacyNewDecFromIntWithPrec"), precMul(ex, a[1]))}
	})
	reg(M+"LegacyMinDec", func(ex *Exec, a []Val) Val {
		x, y := ex.decArg(a[0], "MinDec"), ex.decArg(a[1], "MinDec")
		t := ex.tf.Ite(ex.tf.ILt(x, y), x, y)
		// min(x,y) <= x, y: give the interval reasoning the tighter upper bound
		bx, by := ex.bounds(x), ex.bounds(y)
		r := ex.bounds(t)
		for _, h := range []*big.Int{bx.hi, by.hi} {
			if h != nil && (r.hi == nil || h.Cmp(r.hi) < 0) {
				r.hi = h
			}
		}
		ex.extraBounds[t.ID] = r
		delete(ex.boundMemo, t.ID)
		return DecV{T: t}
	})
	reg(M+"LegacyMaxDec", func(ex *Exec, a []Val) Val {
		x, y := ex.decArg(a[0], "MaxDec"), ex.decArg(a[1], "MaxDec")
		return DecV{T: ex.tf.Ite(ex.tf.ILt(x, y), y, x)}
	})
	reg(M+"LegacyNewDecFromStr", func(ex *Exec, a []Val) Val {
		s, ok := ex.concreteStr(a[0])
		if !ok {
			okv := ex.freshVar("strdec_ok", BoolSort)
			if ex.Branch(okv) {
				v := ex.freshVar("strdec", IntSort)
				ex.axiom(ex.tf.And(ex.tf.ILt(v, ex.tf.IntConst(pow315)), ex.tf.IGt(v, ex.tf.IntConst(new(big.Int).Neg(pow315)))))
				return TupleV{DecV{T: v}, IfaceV{}}
			}
			return TupleV{DecV{Nil: true}, ex.newErr("math.ErrLegacyInvalidDecimalStr", "invalid decimal string")}
		}
		v, err := parseDecStr(s)
		if err != "" {
			return TupleV{DecV{Nil: true}, ex.newErr("math.ErrLegacy", err)}
		}
		return TupleV{DecV{T: ex.tf.IntConst(v)}, IfaceV{}}
	})
	reg(M+"LegacyMustNewDecFromStr", func(ex *Exec, a []Val) Val {
		s := ex.mustConcreteStr(a[0], "LegacyMustNewDecFromStr")
		v, err := parseDecStr(s)
		if err != "" {
			ex.goPanic("LegacyMustNewDecFromStr: " + err)
		}
		return DecV{T: ex.tf.IntConst(v)}
	})

	// ----- LegacyDec methods
	reg(D+"IsNil", func(ex *Exec, a []Val) Val { return ex.tf.Bool(a[0].(DecV).Nil) })
	reg(D+"IsZero", func(ex *Exec, a []Val) Val { return ex.tf.Eq(ex.decArg(a[0], "IsZero"), ex.tf.Inti(0)) })
	reg(D+"IsNegative", func(ex *Exec, a []Val) Val { return ex.tf.ILt(ex.decArg(a[0], "IsNegative"), ex.tf.Inti(0)) })
	reg(D+"IsPositive", func(ex *Exec, a []Val) Val { return ex.tf.IGt(ex.decArg(a[0], "IsPositive"), ex.tf.Inti(0)) })
	reg(D+"Neg", func(ex *Exec, a []Val) Val { return DecV{T: ex.tf.INeg(ex.decArg(a[0], "Neg"))} })
	reg(D+"Abs", func(ex *Exec, a []Val) Val { return DecV{T: ex.tf.IAbs(ex.decArg(a[0], "Abs"))} })
	reg(D+"Clone", func(ex *Exec, a []Val) Val { return DecV{T: ex.decArg(a[0], "Clone")} })
	reg(D+"BigInt", func(ex *Exec, a []Val) Val {
		d := a[0].(DecV)
		if d.Nil {
			return PtrV{}
		}
		return ex.newBigPtr(d.T)
	})
	dchk := func(ex *Exec, t *Term) Val {
		ex.checkBits(t, pow315, "Int overflow")
		return DecV{T: t}
	}
	reg(D+"Add", func(ex *Exec, a []Val) Val {
		return dchk(ex, ex.tf.IAdd(ex.decArg(a[0], "Add"), ex.decArg(a[1], "Add")))
	})
	reg(D+"Sub", func(ex *Exec, a []Val) Val {
		return dchk(ex, ex.tf.ISub(ex.decArg(a[0], "Sub"), ex.decArg(a[1], "Sub")))
	})
	reg(D+"Mul", func(ex *Exec, a []Val) Val {
		return dchk(ex, ex.chopRound(ex.tf.IMul(ex.decArg(a[0], "Mul"), ex.decArg(a[1], "Mul"))))
	})
	reg(D+"MulTruncate", func(ex *Exec, a []Val) Val {
		return dchk(ex, ex.chopTrunc(ex.tf.IMul(ex.decArg(a[0], "MulTruncate"), ex.decArg(a[1], "MulTruncate"))))
	})
	reg(D+"MulRoundUp", func(ex *Exec, a []Val) Val {
		return dchk(ex, ex.chopRoundUp(ex.tf.IMul(ex.decArg(a[0], "MulRoundUp"), ex.decArg(a[1], "MulRoundUp"))))
	})
	reg(D+"MulInt", func(ex *Exec, a []Val) Val {
		return dchk(ex, ex.tf.IMul(ex.decArg(a[0], "MulInt"), ex.bigArg(a[1], "MulInt")))
	})
	reg(D+"MulInt64", func(ex *Exec, a []Val) Val {
		return dchk(ex, ex.tf.IMul(ex.decArg(a[0], "MulInt64"), ex.tf.BV2Int(a[1].(*Term), true)))
	})
	quoPrep := func(ex *Exec, a []Val, name string) *Term {
		x, y := ex.decArg(a[0], name), ex.decArg(a[1], name)
		if ex.Branch(ex.tf.Eq(y, ex.tf.Inti(0))) {
			ex.goPanic("division by zero")
		}
		return ex.truncDiv(ex.tf.IMul(x, ex.tf.IntConst(precSq)), y)
	}
	reg(D+"Quo", func(ex *Exec, a []Val) Val { return dchk(ex, ex.chopRound(quoPrep(ex, a, "Quo"))) })
	reg(D+"QuoTruncate", func(ex *Exec, a []Val) Val { return dchk(ex, ex.chopTrunc(quoPrep(ex, a, "QuoTruncate"))) })
	reg(D+"QuoRoundUp", func(ex *Exec, a []Val) Val { return dchk(ex, ex.chopRoundUp(quoPrep(ex, a, "QuoRoundUp"))) })
	reg(D+"QuoInt", func(ex *Exec, a []Val) Val {
		x, y := ex.decArg(a[0], "QuoInt"), ex.bigArg(a[1], "QuoInt")
		if ex.Branch(ex.tf.Eq(y, ex.tf.Inti(0))) {
			ex.goPanic("division by zero")
		}
		return DecV{T: ex.truncDiv(x, y)}
	})
	reg(D+"QuoInt64", func(ex *Exec, a []Val) Val {
		x, y := ex.decArg(a[0], "QuoInt64"), ex.tf.BV2Int(a[1].(*Term), true)
		if ex.Branch(ex.tf.Eq(y, ex.tf.Inti(0))) {
			ex.goPanic("division by zero")
		}
		return DecV{T: ex.truncDiv(x, y)}
	})
	reg(D+"TruncateInt", func(ex *Exec, a []Val) Val {
		t := ex.chopTrunc(ex.decArg(a[0], "TruncateInt"))
		ex.checkBits(t, pow256, "NewIntFromBigInt() out of bound")
		return BigV{T: t}
	})
	reg(D+"RoundInt", func(ex *Exec, a []Val) Val {
		t := ex.chopRound(ex.decArg(a[0], "RoundInt"))
		ex.checkBits(t, pow256, "NewIntFromBigInt() out of bound")
		return BigV{T: t}
	})
	reg(D+"TruncateInt64", func(ex *Exec, a []Val) Val {
		t := ex.chopTrunc(ex.decArg(a[0], "TruncateInt64"))
		if !ex.Branch(ex.isInt64(t)) {
			ex.goPanic("Int64() out of bound")
		}
		return ex.tf.Int2BV(t, 64)
	})
	reg(D+"RoundInt64", func(ex *Exec, a []Val) Val {
		t := ex.chopRound(ex.decArg(a[0], "RoundInt64"))
		if !ex.Branch(ex.isInt64(t)) {
			ex.goPanic("Int64() out of bound")
		}
		return ex.tf.Int2BV(t, 64)
	})
	reg(D+"TruncateDec", func(ex *Exec, a []Val) Val {
		return DecV{T: ex.tf.IMul(ex.chopTrunc(ex.decArg(a[0], "TruncateDec")), ex.tf.IntConst(precision))}
	})
	reg(D+"IsInteger", func(ex *Exec, a []Val) Val {
		_, r := ex.truncDivRem(ex.decArg(a[0], "IsInteger"), ex.tf.IntConst(precision))
		return ex.tf.Eq(r, ex.tf.Inti(0))
	})
	reg(D+"String", func(ex *Exec, a []Val) Val {
		d := a[0].(DecV)
		if d.Nil {
			return ex.mkStr("<nil>")
		}
		if d.T.IsConst() {
			return ex.mkStr(decString(d.T.C))
		}
		return StrV{Opaque: true, Tag: "dec-string"}
	})

	// ----- math/big
	reg("math/big.NewInt", func(ex *Exec, a []Val) Val { return ex.newBigPtr(ex.tf.BV2Int(a[0].(*Term), true)) })
	setz := func(ex *Exec, z Val, t *Term) Val {
		p := z.(PtrV)
		if p.C == nil {
			ex.goPanic("nil pointer dereference (*big.Int receiver)")
		}
		ex.store(p, BigV{T: t})
		return p
	}
	bin := func(name string, f func(ex *Exec, x, y *Term) *Term) {
		reg(B+name, func(ex *Exec, a []Val) Val {
			return setz(ex, a[0], f(ex, ex.bigPtrArg(a[1], name), ex.bigPtrArg(a[2], name)))
		})
	}
	bin("Add", func(ex *Exec, x, y *Term) *Term { return ex.tf.IAdd(x, y) })
	bin("Sub", func(ex *Exec, x, y *Term) *Term { return ex.tf.ISub(x, y) })
	bin("Mul", func(ex *Exec, x, y *Term) *Term { return ex.tf.IMul(x, y) })
	bin("Quo", func(ex *Exec, x, y *Term) *Term {
		if ex.Branch(ex.tf.Eq(y, ex.tf.Inti(0))) {
			ex.goPanic("division by zero")
		}
		return ex.truncDiv(x, y)
	})
	bin("Rem", func(ex *Exec, x, y *Term) *Term {
		if ex.Branch(ex.tf.Eq(y, ex.tf.Inti(0))) {
			ex.goPanic("division by zero")
		}
		_, r := ex.truncDivRem(x, y)
		return r
	})
	bin("Div", func(ex *Exec, x, y *Term) *Term {
		if ex.Branch(ex.tf.Eq(y, ex.tf.Inti(0))) {
			ex.goPanic("division by zero")
		}
		q, _ := ex.euclidDivMod(x, y)
		return q
	})
	bin("Mod", func(ex *Exec, x, y *Term) *Term {
		if ex.Branch(ex.tf.Eq(y, ex.tf.Inti(0))) {
			ex.goPanic("division by zero")
		}
		_, m := ex.euclidDivMod(x, y)
		return m
	})
	reg(B+"Set", func(ex *Exec, a []Val) Val { return setz(ex, a[0], ex.bigPtrArg(a[1], "Set")) })
	reg(B+"Neg", func(ex *Exec, a []Val) Val { return setz(ex, a[0], ex.tf.INeg(ex.bigPtrArg(a[1], "Neg"))) })
	reg(B+"Abs", func(ex *Exec, a []Val) Val { return setz(ex, a[0], ex.tf.IAbs(ex.bigPtrArg(a[1], "Abs"))) })
	reg(B+"SetInt64", func(ex *Exec, a []Val) Val { return setz(ex, a[0], ex.tf.BV2Int(a[1].(*Term), true)) })
	reg(B+"SetUint64", func(ex *Exec, a []Val) Val { return setz(ex, a[0], ex.tf.BV2Int(a[1].(*Term), false)) })
	reg(B+"Cmp", func(ex *Exec, a []Val) Val {
		return ex.cmpTerm(ex.bigPtrArg(a[0], "Cmp"), ex.bigPtrArg(a[1], "Cmp"))
	})
	reg(B+"Sign", func(ex *Exec, a []Val) Val { return ex.signTerm(ex.bigPtrArg(a[0], "Sign")) })
	reg(B+"IsInt64", func(ex *Exec, a []Val) Val { return ex.isInt64(ex.bigPtrArg(a[0], "IsInt64")) })
	reg(B+"IsUint64", func(ex *Exec, a []Val) Val { return ex.isUint64(ex.bigPtrArg(a[0], "IsUint64")) })
	reg(B+"Int64", func(ex *Exec, a []Val) Val { return ex.tf.Int2BV(ex.bigPtrArg(a[0], "Int64"), 64) })
	reg(B+"Uint64", func(ex *Exec, a []Val) Val { return ex.tf.Int2BV(ex.bigPtrArg(a[0], "Uint64"), 64) })
	reg(B+"String", func(ex *Exec, a []Val) Val {
		p := a[0].(PtrV)
		if p.C == nil {
			return ex.mkStr("<nil>")
		}
		return ex.bigString(ex.load(p).(BigV).T)
	})
	reg(B+"SetString", func(ex *Exec, a []Val) Val {
		base := ex.concretizeInt(a[2].(*Term), 0, 62, "SetString base")
		s, ok := ex.concreteStr(a[1])
		if !ok {
			okv := ex.freshVar("bigstr_ok", BoolSort)
			if ex.Branch(okv) {
				v := ex.freshVar("bigstr", IntSort)
				setz(ex, a[0], v)
				return TupleV{a[0], ex.tf.T}
			}
			return TupleV{PtrV{}, ex.tf.F}
		}
		v, ok2 := new(big.Int).SetString(s, base)
		if !ok2 {
			return TupleV{PtrV{}, ex.tf.F}
		}
		setz(ex, a[0], ex.tf.IntConst(v))
		return TupleV{a[0], ex.tf.T}
	})
	reg(B+"Exp", func(ex *Exec, a []Val) Val {
		x, y := ex.bigPtrArg(a[1], "Exp"), ex.bigPtrArg(a[2], "Exp")
		if mp := a[3].(PtrV); mp.C != nil {
			ex.unmodelled("big.Int.Exp with modulus")
		}
		if !y.IsConst() {
			ex.unmodelled("big.Int.Exp with symbolic exponent")
		}
		n := int(y.C.Int64())
		if y.C.Sign() <= 0 {
			return setz(ex, a[0], ex.tf.Inti(1))
		}
		if n > 512 {
			ex.unmodelled("big.Int.Exp exponent too large")
		}
		acc := ex.tf.Inti(1)
		for i := 0; i < n; i++ {
			acc = ex.tf.IMul(acc, x)
		}
		return setz(ex, a[0], acc)
	})
	reg(B+"Lsh", func(ex *Exec, a []Val) Val {
		x := ex.bigPtrArg(a[1], "Lsh")
		n := ex.concretizeInt(a[2].(*Term), 0, 1024, "Lsh")
		return setz(ex, a[0], ex.tf.IMul(x, ex.tf.IntConst(new(big.Int).Lsh(big.NewInt(1), uint(n)))))
	})
	reg(B+"Rsh", func(ex *Exec, a []Val) Val {
		x := ex.bigPtrArg(a[1], "Rsh")
		n := ex.concretizeInt(a[2].(*Term), 0, 1024, "Rsh")
		// arithmetic shift = floor division by 2^n
		q, _ := ex.euclidDivMod(x, ex.tf.IntConst(new(big.Int).Lsh(big.NewInt(1), uint(n))))
		return setz(ex, a[0], q)
	})
	reg(B+"BitLen", func(ex *Exec, a []Val) Val {
		t := ex.bigPtrArg(a[0], "BitLen")
		if t.IsConst() {
			return ex.tf.BVu(uint64(t.C.BitLen()), 64)
		}
		ex.unmodelled("BitLen of symbolic big.Int")
		return nil
	})

	// ----- sdkmath.Uint (subset)
	const U = "(cosmossdk.io/math.Uint)."
	reg(M+"NewUint", func(ex *Exec, a []Val) Val { return BigV{T: ex.tf.BV2Int(a[0].(*Term), false)} })
	reg(M+"ZeroUint", func(ex *Exec, a []Val) Val { return BigV{T: ex.tf.Inti(0)} })
	reg(M+"OneUint", func(ex *Exec, a []Val) Val { return BigV{T: ex.tf.Inti(1)} })
	reg(U+"IsZero", func(ex *Exec, a []Val) Val { return ex.tf.Eq(ex.bigArg(a[0], "Uint.IsZero"), ex.tf.Inti(0)) })
	reg(U+"Uint64", func(ex *Exec, a []Val) Val {
		t := ex.bigArg(a[0], "Uint.Uint64")
		if !ex.Branch(ex.isUint64(t)) {
			ex.goPanic("Uint64() out of bound")
		}
		return ex.tf.Int2BV(t, 64)
	})
	reg(U+"BigInt", func(ex *Exec, a []Val) Val { return ex.newBigPtr(ex.bigArg(a[0], "Uint.BigInt")) })
	reg(U+"String", func(ex *Exec, a []Val) Val { return ex.bigString(ex.bigArg(a[0], "Uint.String")) })
	ucmp := func(name string, f func(ex *Exec, x, y *Term) *Term) {
		reg(U+name, func(ex *Exec, a []Val) Val { return f(ex, ex.bigArg(a[0], name), ex.bigArg(a[1], name)) })
	}
	ucmp("Equal", func(ex *Exec, x, y *Term) *Term { return ex.tf.Eq(x, y) })
	ucmp("GT", func(ex *Exec, x, y *Term) *Term { return ex.tf.IGt(x, y) })
	ucmp("GTE", func(ex *Exec, x, y *Term) *Term { return ex.tf.IGe(x, y) })
	ucmp("LT", func(ex *Exec, x, y *Term) *Term { return ex.tf.ILt(x, y) })
	ucmp("LTE", func(ex *Exec, x, y *Term) *Term { return ex.tf.ILe(x, y) })
}

// parseDecStr mirrors LegacyNewDecFromStr for concrete strings.
func parseDecStr(str string) (*big.Int, string) {
	if len(str) == 0 {
		return nil, "decimal string cannot be empty"
	}
	neg := false
	if str[0] == '-' {
		neg = true
		str = str[1:]
	}
	if len(str) == 0 {
		return nil, "decimal string cannot be empty"
	}
	intStr, fracStr := str, ""
	n := 0
	for i := 0; i < len(str); i++ {
		if str[i] == '.' {
			n++
		}
	}
	if n == 1 {
		for i := 0; i < len(str); i++ {
			if str[i] == '.' {
				intStr, fracStr = str[:i], str[i+1:]
			}
		}
		if len(fracStr) == 0 {
			return nil, "invalid decimal string"
		}
	} else if n > 1 {
		return nil, "invalid decimal string"
	}
	if len(fracStr) > 18 {
		return nil, "too much precision"
	}
	combined := intStr + fracStr
	for len(fracStr) < 18 {
		combined += "0"
		fracStr += "0"
	}
	v, ok := new(big.Int).SetString(combined, 10)
	if !ok {
		return nil, "failed to set decimal string"
	}
	if v.BitLen() > 315 {
		return nil, "decimal out of range"
	}
	if neg {
		v.Neg(v)
	}
	return v, ""
}
