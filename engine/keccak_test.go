package main

import (
	"encoding/hex"
	"testing"
)

func TestKeccak(t *testing.T) {
	h := keccak256(nil)
	if hex.EncodeToString(h[:]) != "c5d2460186f7233c927e7db2dcc703c0e500b653ca82273b7bfad8045d85a470" {
		t.Fatal(hex.EncodeToString(h[:]))
	}
	a, _ := hex.DecodeString("5aaeb6053f3e94c9b9a09f33669435e7ef1beaed")
	if eip55(a) != "0x5aAeb6053F3E94C9b9A09f33669435E7Ef1BeAed" {
		t.Fatal(eip55(a))
	}
}
