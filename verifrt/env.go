//go:build verif

package verifrt

import (
	"fmt"
	"time"

	dbm "github.com/cometbft/cometbft-db"
	"github.com/cometbft/cometbft/libs/log"
	tmproto "github.com/cometbft/cometbft/proto/tendermint/types"
	"github.com/cosmos/cosmos-sdk/codec"
	codectypes "github.com/cosmos/cosmos-sdk/codec/types"
	cryptocodec "github.com/cosmos/cosmos-sdk/crypto/codec"
	"github.com/cosmos/cosmos-sdk/store"
	storetypes "github.com/cosmos/cosmos-sdk/store/types"
	sdk "github.com/cosmos/cosmos-sdk/types"

	cmdcfg "github.com/ExocoreNetwork/exocore/cmd/config"
)

var storeKeys = map[string]*storetypes.KVStoreKey{}
var storeOrder []string

func init() {
	cfg := sdk.GetConfig()
	cmdcfg.SetBech32Prefixes(cfg)
}

// StoreKey returns the (memoised) KV store key with the given name.
func StoreKey(name string) storetypes.StoreKey {
	if k, ok := storeKeys[name]; ok {
		return k
	}
	k := storetypes.NewKVStoreKey(name)
	storeKeys[name] = k
	storeOrder = append(storeOrder, name)
	return k
}

// Codec returns a proto codec.
func Codec() codec.BinaryCodec {
	reg := codectypes.NewInterfaceRegistry()
	cryptocodec.RegisterInterfaces(reg)
	return codec.NewProtoCodec(reg)
}

// NewContext returns a fresh context over empty in-memory stores for every key created so far.
func NewContext(height int64, unixSeconds int64, chainID string) sdk.Context {
	db := dbm.NewMemDB()
	cms := store.NewCommitMultiStore(db)
	for _, n := range storeOrder {
		cms.MountStoreWithDB(storeKeys[n], storetypes.StoreTypeIAVL, db)
	}
	if err := cms.LoadLatestVersion(); err != nil {
		panic(err)
	}
	return sdk.NewContext(cms, tmproto.Header{Height: height, Time: time.Unix(unixSeconds, 0).UTC(), ChainID: chainID}, false, log.NewNopLogger())
}

// NewContextAt is NewContext with an explicit block time.
func NewContextAt(height int64, t time.Time, chainID string) sdk.Context {
	return NewContext(height, 0, chainID).WithBlockTime(t)
}

// RemountContext returns a context (same height/time/chain id) whose multistore has every store
// key created so far mounted. Needed natively when keys are created after the first NewContext;
// under the engine stores exist lazily and this is the identity.
func RemountContext(old sdk.Context) sdk.Context {
	n := NewContext(old.BlockHeight(), 0, old.ChainID())
	return n.WithBlockTime(old.BlockTime())
}

// StateSnap is a copy of every mounted KV store's contents.
type StateSnap struct{ m map[string]map[string]string }

func dumpStore(ctx sdk.Context, k storetypes.StoreKey) (out map[string]string) {
	out = map[string]string{}
	defer func() { _ = recover() }() // store not mounted in this context: empty
	it := ctx.KVStore(k).Iterator(nil, nil)
	defer it.Close()
	for ; it.Valid(); it.Next() {
		out[string(it.Key())] = string(it.Value())
	}
	return out
}

// Snapshot copies the contents of every KV store reachable from ctx.
func Snapshot(ctx sdk.Context) *StateSnap {
	s := &StateSnap{m: map[string]map[string]string{}}
	for _, n := range storeOrder {
		s.m[n] = dumpStore(ctx, storeKeys[n])
	}
	return s
}

// SameState reports whether every KV store reachable from ctx has exactly the contents recorded in s.
func SameState(ctx sdk.Context, s *StateSnap) bool {
	for _, n := range storeOrder {
		cur := dumpStore(ctx, storeKeys[n])
		old := s.m[n]
		if len(cur) != len(old) {
			return false
		}
		for k, v := range cur {
			if ov, ok := old[k]; !ok || ov != v {
				return false
			}
		}
	}
	return true
}

// ForkContext returns a context (same header) over an independent copy of every KV store.
func ForkContext(old sdk.Context) sdk.Context {
	n := NewContext(old.BlockHeight(), 0, old.ChainID()).WithBlockTime(old.BlockTime())
	for _, name := range storeOrder {
		for k, v := range dumpStore(old, storeKeys[name]) {
			n.KVStore(storeKeys[name]).Set([]byte(k), []byte(v))
		}
	}
	return n
}

// ClearStore deletes every key of one KV store in ctx.
func ClearStore(ctx sdk.Context, k storetypes.StoreKey) {
	st := ctx.KVStore(k)
	var keys [][]byte
	it := st.Iterator(nil, nil)
	for ; it.Valid(); it.Next() {
		keys = append(keys, append([]byte{}, it.Key()...))
	}
	it.Close()
	for _, key := range keys {
		st.Delete(key)
	}
}

// DescribeDiff lists (natively, for debugging replays) the store keys whose presence or value
// differs between ctx and the snapshot; under the engine it returns "".
func DescribeDiff(ctx sdk.Context, s *StateSnap) string {
	out := ""
	for _, n := range storeOrder {
		cur := dumpStore(ctx, storeKeys[n])
		old := s.m[n]
		for k, v := range cur {
			if ov, ok := old[k]; !ok {
				out += fmt.Sprintf("[%s] extra key %x; ", n, k)
			} else if ov != v {
				out += fmt.Sprintf("[%s] value differs at key %x; ", n, k)
			}
		}
		for k := range old {
			if _, ok := cur[k]; !ok {
				out += fmt.Sprintf("[%s] missing key %x; ", n, k)
			}
		}
	}
	return out
}
