//go:build verif

// Package verifrt is the harness runtime. Under the symbolic engine (symx) every function
// here is intercepted as an intrinsic; compiled natively it replays a solver model so that a
// counterexample is re-run against the real code.
package verifrt

import (
	"encoding/json"
	"fmt"
	"math/big"
	"os"
	"strconv"

	sdkmath "cosmossdk.io/math"
)

type state struct {
	Model    map[string]string `json:"model"`
	Params   map[string]int    `json:"params"`
	Known    []string          `json:"known"`
	Failed   []string
	Covered  []string
	Assumed  bool
	counters map[string]int
}

var st = &state{Model: map[string]string{}, Params: map[string]int{}, counters: map[string]int{}}

// AssumptionViolated is the panic value used when a replayed model does not satisfy an Assume.
type AssumptionViolated struct{ Msg string }

// LoadReplay loads a replay file written by the engine.
func LoadReplay(path string) error {
	bz, err := os.ReadFile(path)
	if err != nil {
		return err
	}
	ns := &state{counters: map[string]int{}}
	if err := json.Unmarshal(bz, ns); err != nil {
		return err
	}
	if ns.Model == nil {
		ns.Model = map[string]string{}
	}
	if ns.Params == nil {
		ns.Params = map[string]int{}
	}
	st = ns
	return nil
}

func Failures() []string { return st.Failed }

func name(n string) string {
	st.counters[n]++
	if c := st.counters[n]; c > 1 {
		return n + "#" + strconv.Itoa(c)
	}
	return n
}

func val(n string) *big.Int {
	s, ok := st.Model[name(n)]
	if !ok {
		return big.NewInt(0)
	}
	v, ok := new(big.Int).SetString(s, 10)
	if !ok {
		if s == "true" {
			return big.NewInt(1)
		}
		return big.NewInt(0)
	}
	return v
}

func Bool(n string) bool { return val(n).Sign() != 0 }
func U64(n string) uint64 { return val(n).Uint64() }
func I64(n string) int64 {
	v := val(n)
	if v.IsInt64() {
		return v.Int64()
	}
	return int64(v.Uint64())
}
func U32(n string) uint32 { return uint32(val(n).Uint64()) }
func U8(n string) uint8   { return uint8(val(n).Uint64()) }

// Int is an arbitrary sdk.Int (|x| < 2^256).
func Int(n string) sdkmath.Int { return sdkmath.NewIntFromBigInt(val(n)) }

// BigInt is an arbitrary *big.Int (unbounded).
func BigInt(n string) *big.Int { return val(n) }

// Dec is an arbitrary LegacyDec given by its raw 18-decimal integer representation.
func Dec(n string) sdkmath.LegacyDec { return sdkmath.LegacyNewDecFromBigIntWithPrec(val(n), 18) }

// Choice returns a value in [0,n).
func Choice(nm string, n int) int {
	v := int(val(nm).Int64())
	if v < 0 || v >= n {
		panic(AssumptionViolated{"choice out of range: " + nm})
	}
	return v
}

// Byte string of fixed length with arbitrary content.
func Bytes(nm string, n int) []byte {
	out := make([]byte, n)
	for i := range out {
		out[i] = byte(val(fmt.Sprintf("%s[%d]", nm, i)).Uint64())
	}
	return out
}

// Param is a concrete bound taken from the tier configuration.
func Param(n string, def int) int {
	if v, ok := st.Params[n]; ok {
		return v
	}
	return def
}

func Assume(c bool) {
	if !c {
		panic(AssumptionViolated{"assumption violated in replay"})
	}
}

func Assert(c bool, label string) {
	if !c {
		st.Failed = append(st.Failed, label)
	}
}

func Cover(label string) { st.Covered = append(st.Covered, label) }

// Covers returns the labels reached by Cover during this run.
func Covers() []string { return st.Covered }

// Known reports whether a finding id is listed as an open known finding.
func Known(id string) bool {
	for _, k := range st.Known {
		if k == id {
			return true
		}
	}
	return false
}

// Try runs f and reports whether it panicked (the panic is swallowed).
func Try(f func()) (panicked bool) {
	defer func() {
		if r := recover(); r != nil {
			if av, ok := r.(AssumptionViolated); ok {
				panic(av)
			}
			panicked = true
		}
	}()
	f()
	return false
}

// MapOrder selects how `range` over maps is explored by the engine: "insertion" or "permute".
func MapOrder(mode string) {}

// Unwind sets the loop bound for the rest of the path (engine only).
func Unwind(n int) {}

// All is conjunction without short-circuit control flow (one solver term instead of forks).
func All(cs ...bool) bool {
	for _, c := range cs {
		if !c {
			return false
		}
	}
	return true
}

// Any is disjunction without short-circuit control flow.
func Any(cs ...bool) bool {
	for _, c := range cs {
		if c {
			return true
		}
	}
	return false
}

// Ite / IteDec select a value without forking the path.
func Ite(c bool, a, b sdkmath.Int) sdkmath.Int {
	if c {
		return a
	}
	return b
}
func IteI64(c bool, a, b int64) int64 {
	if c {
		return a
	}
	return b
}
func IteDec(c bool, a, b sdkmath.LegacyDec) sdkmath.LegacyDec {
	if c {
		return a
	}
	return b
}

// Debug prints a value during native replay (no-op under the engine).
func Debug(what string, v interface{}) {
	if os.Getenv("VERIF_DEBUG") != "" {
		fmt.Printf("VERIF-DEBUG %s: %v\n", what, v)
	}
}
