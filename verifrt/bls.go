//go:build verif

package verifrt

import (
	"github.com/prysmaticlabs/prysm/v4/crypto/bls/blst"
)

// fixed secret key of the harness operator (ideal-functionality model under the engine:
// a signature verifies iff it was produced by BLSSign for exactly that message)
var blsSecret = []byte{
	0x26, 0x3d, 0xbd, 0x79, 0x2f, 0x5b, 0x1b, 0xe4, 0x7e, 0xd8, 0x5f, 0x89, 0x38, 0xc0, 0xf2, 0x95,
	0x86, 0xaf, 0x0d, 0x3a, 0xc7, 0xb9, 0x77, 0xf2, 0x1c, 0x27, 0x8f, 0xe1, 0x46, 0x20, 0x40, 0xe3,
}

// BLSPubKey returns the compressed public key bytes of the harness key.
func BLSPubKey() []byte {
	sk, err := blst.SecretKeyFromBytes(blsSecret)
	if err != nil {
		panic(err)
	}
	return sk.PublicKey().Marshal()
}

// BLSSign signs msg with the harness key.
func BLSSign(msg []byte) []byte {
	sk, err := blst.SecretKeyFromBytes(blsSecret)
	if err != nil {
		panic(err)
	}
	return sk.Sign(msg).Marshal()
}
