//go:build verif

package c07

import (
	"bytes"
	"fmt"

	sdkmath "cosmossdk.io/math"
	"github.com/cosmos/cosmos-sdk/store/prefix"
	sdk "github.com/cosmos/cosmos-sdk/types"

	keytypes "github.com/ExocoreNetwork/exocore/types/keys"
	avstypes "github.com/ExocoreNetwork/exocore/x/avs/types"
	dogfoodtypes "github.com/ExocoreNetwork/exocore/x/dogfood/types"
	epochstypes "github.com/ExocoreNetwork/exocore/x/epochs/types"
	operatorkeeper "github.com/ExocoreNetwork/exocore/x/operator/keeper"
	operatortypes "github.com/ExocoreNetwork/exocore/x/operator/types"
	oracletypes "github.com/ExocoreNetwork/exocore/x/oracle/types"

	"github.com/ExocoreNetwork/exocore/verifenv"
	"github.com/ExocoreNetwork/exocore/verifrt"
)

func nm(f string, a ...interface{}) string { return fmt.Sprintf(f, a...) }

// the key universe: three ed25519 public keys
var keyB64 = []string{
	"MTExMTExMTExMTExMTExMTExMTExMTExMTExMTExMTE=",
	"MjIyMjIyMjIyMjIyMjIyMjIyMjIyMjIyMjIyMjIyMjI=",
	"MzMzMzMzMzMzMzMzMzMzMzMzMzMzMzMzMzMzMzMzMzM=",
}

func keyJSON(j int) string {
	return `{"@type":"/cosmos.crypto.ed25519.PubKey","key":"` + keyB64[j] + `"}`
}

const nOps = 2
const unbondingEpochs = 1

type world struct {
	f       *verifenv.Full
	chain   string
	avs     string
	epoch   int64
	keys    []keytypes.WrappedConsKey
	cons    []sdk.ConsAddress
	ms      *operatorkeeper.MsgServerImpl
	dueAt   []int64 // ghost: epoch at whose end key j's reverse lookup may be pruned (-1: none)
	wasVal  []bool  // ghost: key j is in the validator set handed to consensus
	current []int   // ghost: operator o's current key (-1 none)
}

func setup() *world {
	f := verifenv.NewFull(100)
	w := &world{f: f, chain: avstypes.ChainIDWithoutRevision(f.Ctx.ChainID()), epoch: 5}
	w.putEpoch()
	f.Dogfood.SetParams(f.Ctx, dogfoodtypes.Params{EpochsUntilUnbonded: unbondingEpochs, EpochIdentifier: verifenv.EpochDay, MaxValidators: 3, HistoricalEntries: 0, MinSelfDelegation: sdkmath.ZeroInt()})
	f.Env.RegisterAsset(verifenv.LSTAddrHex, 6, sdkmath.NewInt(1000))
	f.Oracle.Prices[verifenv.LSTAssetID()] = oracletypes.Price{Value: sdkmath.NewInt(1), Decimal: 0}
	addr, err := f.AVS.RegisterAVSWithChainID(f.Ctx, &avstypes.AVSRegisterOrDeregisterParams{
		AvsName: "dogfood", AssetID: []string{verifenv.LSTAssetID()}, UnbondingPeriod: unbondingEpochs, MinSelfDelegation: 0,
		EpochIdentifier: verifenv.EpochDay, ChainID: f.Ctx.ChainID(), AvsOwnerAddress: []string{verifenv.Authority}})
	verifrt.Assume(err == nil)
	w.avs = avstypes.GenerateAVSAddr(w.chain)
	_ = addr
	for j := range keyB64 {
		k := keytypes.NewWrappedConsKeyFromJSON(keyJSON(j))
		verifrt.Assume(k != nil)
		w.keys = append(w.keys, k)
		w.cons = append(w.cons, k.ToConsAddr())
		w.dueAt = append(w.dueAt, -1)
		w.wasVal = append(w.wasVal, false)
	}
	for o := 0; o < nOps; o++ {
		f.RegisterOperator(o)
		w.current = append(w.current, -1)
	}
	w.ms = operatorkeeper.NewMsgServerImpl(*f.Operator)
	return w
}

func (w *world) putEpoch() {
	st := prefix.NewStore(w.f.Ctx.KVStore(verifrt.StoreKey(epochstypes.StoreKey)), epochstypes.KeyPrefixEpoch)
	ep := epochstypes.EpochInfo{Identifier: verifenv.EpochDay, Duration: 3600000000000, CurrentEpoch: w.epoch, EpochCountingStarted: true}
	st.Set([]byte(verifenv.EpochDay), w.f.Env.Cdc.MustMarshal(&ep))
}

func (w *world) rev(j int) (bool, int) {
	found, acc := w.f.Operator.GetOperatorAddressForChainIDAndConsAddr(w.f.Ctx, w.chain, w.cons[j])
	if !found {
		return false, -1
	}
	for o := 0; o < nOps; o++ {
		if bytes.Equal(acc, verifenv.OperatorAddr(o)) {
			return true, o
		}
	}
	return true, -2
}

func (w *world) inValSet(j int) bool {
	_, found := w.f.Dogfood.GetExocoreValidator(w.f.Ctx, w.cons[j])
	return found
}

func (w *world) keyIndex(k keytypes.WrappedConsKey) int {
	for j := range w.keys {
		if k.EqualsWrapped(w.keys[j]) {
			return j
		}
	}
	return -1
}

// step performs one operation chosen symbolically and updates the ghost state.
func (w *world) step(t int) {
	f := w.f
	op := verifrt.Choice(nm("step%d_op", t), 4)
	if op == 3 {
		// the dogfood epoch ends: BeginBlock hook, then EndBlock computes the validator updates
		f.Dogfood.EpochsHooks().AfterEpochEnd(f.Ctx, verifenv.EpochDay, w.epoch)
		f.Dogfood.EndBlock(f.Ctx)
		for j := range w.keys {
			w.wasVal[j] = w.inValSet(j)
			if w.dueAt[j] == w.epoch {
				w.dueAt[j] = -1
			}
		}
		w.epoch++
		w.putEpoch()
		return
	}
	o := verifrt.Choice(nm("step%d_operator", t), nOps)
	acc := verifenv.OperatorAddr(o)
	removing := f.Operator.IsOperatorRemovingKeyFromChainID(f.Ctx, acc, w.chain)
	switch op {
	case 0, 1:
		j := verifrt.Choice(nm("step%d_key", t), len(w.keys))
		_, heldBy := w.rev(j)
		var err error
		if op == 0 {
			_, err = w.ms.OptIntoAVS(sdk.WrapSDKContext(f.Ctx), &operatortypes.OptIntoAVSReq{FromAddress: verifenv.OperatorBech[o], AvsAddress: w.avs, PublicKeyJSON: keyJSON(j)})
			if err == nil {
				// give the operator voting power so that the next epoch end makes it a validator
				f.PutUSDValue(w.avs, o, operatortypes.OperatorOptedUSDValue{SelfUSDValue: sdkmath.LegacyNewDec(10), TotalUSDValue: sdkmath.LegacyNewDec(10), ActiveUSDValue: sdkmath.LegacyNewDec(int64(10 + o))})
			}
		} else {
			_, err = w.ms.SetConsKey(sdk.WrapSDKContext(f.Ctx), &operatortypes.SetConsKeyReq{Address: verifenv.OperatorBech[o], AvsAddress: w.avs, PublicKeyJSON: keyJSON(j)})
		}
		if err == nil {
			verifrt.Assert(!removing, "an operator that is removing its key cannot set a new one")
			verifrt.Assert(verifrt.Any(heldBy == -1, w.current[o] == j), "a key that is reserved (current, replaced or being removed and not yet matured) is never handed out")
			old := w.current[o]
			if old >= 0 && old != j && w.wasVal[old] {
				w.dueAt[old] = w.epoch + unbondingEpochs
			}
			w.current[o] = j
			verifrt.Cover(nm("key set by op %d", op))
		}
	case 2:
		_, err := w.ms.OptOutOfAVS(sdk.WrapSDKContext(f.Ctx), &operatortypes.OptOutOfAVSReq{FromAddress: verifenv.OperatorBech[o], AvsAddress: w.avs})
		if err == nil {
			old := w.current[o]
			if old >= 0 && w.wasVal[old] {
				w.dueAt[old] = w.epoch + unbondingEpochs
			}
			verifrt.Cover("opted out")
		}
	}
}

// check asserts the registry invariant.
func (w *world) check() {
	f := w.f
	st := f.Ctx.KVStore(verifrt.StoreKey(operatortypes.StoreKey))
	for o := 0; o < nOps; o++ {
		acc := verifenv.OperatorAddr(o)
		found, key, err := f.Operator.GetOperatorConsKeyForChainID(f.Ctx, acc, w.chain)
		verifrt.Assert(err == nil, "key lookup of a registered operator on a registered chain does not fail")
		second := st.Get(operatortypes.KeyForChainIDAndOperatorToConsKey(w.chain, acc))
		first := st.Get(operatortypes.KeyForOperatorAndChainIDToConsKey(acc, w.chain))
		verifrt.Assert(verifrt.All((second != nil) == found, (first != nil) == found), "operator->chain->key and chain->operator->key list the same operators")
		if found {
			verifrt.Assert(bytes.Equal(first, second), "operator->chain->key and chain->operator->key hold the same key")
			j := w.keyIndex(key)
			verifrt.Assert(j >= 0, "the stored key is one that was submitted")
			if j >= 0 {
				has, who := w.rev(j)
				verifrt.Assert(verifrt.All(has, who == o), "the consensus address of an operator's key resolves to that operator")
			}
		}
	}
	for j := range w.keys {
		owners := 0
		for o := 0; o < nOps; o++ {
			found, key, _ := f.Operator.GetOperatorConsKeyForChainID(f.Ctx, verifenv.OperatorAddr(o), w.chain)
			if found && key.EqualsWrapped(w.keys[j]) {
				owners++
			}
		}
		verifrt.Assert(owners <= 1, "a consensus key belongs to at most one operator")
		has, who := w.rev(j)
		if has {
			verifrt.Assert(who >= 0, "a consensus address resolves to a registered operator")
			mine := false
			if who >= 0 {
				found, key, _ := f.Operator.GetOperatorConsKeyForChainID(f.Ctx, verifenv.OperatorAddr(who), w.chain)
				mine = found && key.EqualsWrapped(w.keys[j])
			}
			verifrt.Assert(verifrt.Any(mine, w.inValSet(j), w.dueAt[j] >= 0), "a consensus address resolves to an operator only while it is that operator's key, in the validator set, or within the unbonding period after its replacement or removal (no stale reservation)")
		}
		if verifrt.Any(w.inValSet(j), w.dueAt[j] >= 0) {
			verifrt.Assert(has, "a consensus address in the validator set, or replaced/removed less than the unbonding period ago, still resolves to its operator (slashable)")
		}
	}
}

// VerifC07KeyRegistry: a bounded sequence of opt-in-with-key, key replacement, opt-out and epoch
// end operations by two operators over three keys, through the real message server, operator
// keeper, dogfood hooks and dogfood EndBlock; the registry invariant is asserted after every step.
func VerifC07KeyRegistry() {
	w := setup()
	// initial state: empty registry, or one / two operators already in the validator set
	// (built with the same operations, so it is a reachable state)
	init := verifrt.Choice("initial_validators", 3)
	for o := 0; o < init; o++ {
		_, err := w.ms.OptIntoAVS(sdk.WrapSDKContext(w.f.Ctx), &operatortypes.OptIntoAVSReq{FromAddress: verifenv.OperatorBech[o], AvsAddress: w.avs, PublicKeyJSON: keyJSON(o)})
		verifrt.Assume(err == nil)
		w.f.PutUSDValue(w.avs, o, operatortypes.OperatorOptedUSDValue{SelfUSDValue: sdkmath.LegacyNewDec(10), TotalUSDValue: sdkmath.LegacyNewDec(10), ActiveUSDValue: sdkmath.LegacyNewDec(int64(10 + o))})
		w.current[o] = o
	}
	if init > 0 {
		w.f.Dogfood.EpochsHooks().AfterEpochEnd(w.f.Ctx, verifenv.EpochDay, w.epoch)
		w.f.Dogfood.EndBlock(w.f.Ctx)
		for j := range w.keys {
			w.wasVal[j] = w.inValSet(j)
		}
		w.epoch++
		w.putEpoch()
		for o := 0; o < init; o++ {
			verifrt.Assume(w.wasVal[o])
		}
		w.check()
	}
	steps := verifrt.Param("steps", 3)
	for t := 0; t < steps; t++ {
		w.step(t)
		w.check()
	}
}
