//go:build verif

package c07

import (
	"bytes"
	"fmt"

	sdkmath "cosmossdk.io/math"
	"github.com/cosmos/cosmos-sdk/store/prefix"
	sdk "github.com/cosmos/cosmos-sdk/types"

	keytypes "github.com/ExocoreNetwork/exocore/types/keys"
	assetstypes "github.com/ExocoreNetwork/exocore/x/assets/types"
	avstypes "github.com/ExocoreNetwork/exocore/x/avs/types"
	delegationtypes "github.com/ExocoreNetwork/exocore/x/delegation/types"
	dogfoodtypes "github.com/ExocoreNetwork/exocore/x/dogfood/types"
	epochstypes "github.com/ExocoreNetwork/exocore/x/epochs/types"
	operatorkeeper "github.com/ExocoreNetwork/exocore/x/operator/keeper"
	operatortypes "github.com/ExocoreNetwork/exocore/x/operator/types"
	oracletypes "github.com/ExocoreNetwork/exocore/x/oracle/types"

	"github.com/ExocoreNetwork/exocore/verifenv"
	"github.com/ExocoreNetwork/exocore/verifrt"
)

func nm(f string, a ...interface{}) string { return fmt.Sprintf(f, a...) }

// the key universe: three ed25519 public keys
var keyB64 = []string{
	"MTExMTExMTExMTExMTExMTExMTExMTExMTExMTExMTE=",
	"MjIyMjIyMjIyMjIyMjIyMjIyMjIyMjIyMjIyMjIyMjI=",
	"MzMzMzMzMzMzMzMzMzMzMzMzMzMzMzMzMzMzMzMzMzM=",
	"NDQ0NDQ0NDQ0NDQ0NDQ0NDQ0NDQ0NDQ0NDQ0NDQ0NDQ=",
}

func keyJSON(j int) string {
	return `{"@type":"/cosmos.crypto.ed25519.PubKey","key":"` + keyB64[j] + `"}`
}

const nOps = 2

// unbonding period in dogfood epochs (set in setup)
var unbondingEpochs int64 = 1

type world struct {
	f       *verifenv.Full
	chain   string
	avs     string
	epoch   int64
	keys    []keytypes.WrappedConsKey
	cons    []sdk.ConsAddress
	ms      *operatorkeeper.MsgServerImpl
	dueAt   []int64 // ghost: epoch at whose end key j's reverse lookup may be pruned (-1: none)
	wasVal  []bool  // ghost: key j is in the validator set handed to consensus
	current []int   // ghost: operator o's current key (-1 none)

	// block structure: the BeginBlock hook that closes an epoch and the EndBlock of that block
	// are separate steps, so transactions can fall in between
	pendingEnd bool
	closing    int64 // the epoch whose end is being processed while pendingEnd

	// ghost state for the unbonding queues (C16)
	withUndelegations bool
	removing          []bool  // operator o's key removal is in progress
	optOutDue         []int64 // ... and completes in the EndBlock closing this epoch
	prevKey           []int   // operator o's key at the last validator-set update, if replaced since (-1 none)
	pruneQueued       []bool  // key j was replaced while a validator: its address is queued for pruning at dueAt[j]
	recs              []*heldRec
}

// heldRec: an undelegation whose start was announced to the dogfood module.
type heldRec struct {
	key      []byte
	held     bool
	due      int64
	released bool
}

func setup() *world {
	f := verifenv.NewFull(100)
	unbondingEpochs = int64(verifrt.Param("unbonding", 1))
	if verifrt.Param("unbonding_choice", 0) == 1 {
		unbondingEpochs = int64(verifrt.Choice("unbonding_epochs", 2))
	}
	w := &world{f: f, chain: avstypes.ChainIDWithoutRevision(f.Ctx.ChainID()), epoch: 5}
	w.putEpoch()
	params := dogfoodtypes.Params{EpochsUntilUnbonded: uint32(unbondingEpochs), EpochIdentifier: verifenv.EpochDay, MaxValidators: 3, HistoricalEntries: 0, MinSelfDelegation: sdkmath.ZeroInt()}
	if verifrt.Param("valid_params", 0) == 1 {
		// parameters that pass genesis validation (needed by the restart harness of C18)
		params.HistoricalEntries = 1
		params.AssetIDs = []string{verifenv.LSTAssetID()}
	}
	f.Dogfood.SetParams(f.Ctx, params)
	f.Env.RegisterAsset(verifenv.LSTAddrHex, 6, sdkmath.NewInt(1000))
	f.Oracle.Prices[verifenv.LSTAssetID()] = oracletypes.Price{Value: sdkmath.NewInt(1), Decimal: 0}
	addr, err := f.AVS.RegisterAVSWithChainID(f.Ctx, &avstypes.AVSRegisterOrDeregisterParams{
		AvsName: "dogfood", AssetID: []string{verifenv.LSTAssetID()}, UnbondingPeriod: uint64(unbondingEpochs), MinSelfDelegation: 0,
		EpochIdentifier: verifenv.EpochDay, ChainID: f.Ctx.ChainID(), AvsOwnerAddress: []string{verifenv.Authority}})
	verifrt.Assume(err == nil)
	w.avs = avstypes.GenerateAVSAddr(w.chain)
	_ = addr
	for j := 0; j < verifrt.Param("keys", 3); j++ {
		k := keytypes.NewWrappedConsKeyFromJSON(keyJSON(j))
		verifrt.Assume(k != nil)
		w.keys = append(w.keys, k)
		w.cons = append(w.cons, k.ToConsAddr())
		w.dueAt = append(w.dueAt, -1)
		w.wasVal = append(w.wasVal, false)
		w.pruneQueued = append(w.pruneQueued, false)
	}
	for o := 0; o < nOps; o++ {
		f.RegisterOperator(o)
		// stake delegated to the operator: 10+o tokens at price 1, so that the voting-power update
		// at the next epoch end gives it a positive vote power
		amt := sdkmath.NewInt(int64(10+o) * 1000000) // the asset has 6 decimals
		f.Env.Ctx = f.Ctx
		f.Env.PutOperatorAsset(o, verifenv.LSTAssetID(), assetstypes.OperatorAssetInfo{TotalAmount: amt, PendingUndelegationAmount: sdkmath.ZeroInt(), TotalShare: sdkmath.LegacyNewDecFromInt(amt), OperatorShare: sdkmath.LegacyZeroDec()})
		f.Env.PutDelegation(2, o, verifenv.LSTAssetID(), delegationtypes.DelegationAmounts{UndelegatableShare: sdkmath.LegacyNewDecFromInt(amt), WaitUndelegationAmount: sdkmath.ZeroInt()})
		verifrt.Assume(f.Deleg.AppendStakerForOperator(f.Ctx, verifenv.OperatorBech[o], verifenv.LSTAssetID(), verifenv.StakerID(2)) == nil)
		w.current = append(w.current, -1)
		w.removing = append(w.removing, false)
		w.optOutDue = append(w.optOutDue, -1)
		w.prevKey = append(w.prevKey, -1)
	}
	w.ms = operatorkeeper.NewMsgServerImpl(*f.Operator)
	return w
}

func (w *world) putEpoch() {
	st := prefix.NewStore(w.f.Ctx.KVStore(verifrt.StoreKey(epochstypes.StoreKey)), epochstypes.KeyPrefixEpoch)
	ep := epochstypes.EpochInfo{Identifier: verifenv.EpochDay, Duration: 3600000000000, CurrentEpoch: w.epoch, EpochCountingStarted: true}
	st.Set([]byte(verifenv.EpochDay), w.f.Env.Cdc.MustMarshal(&ep))
}

func (w *world) rev(j int) (bool, int) {
	found, acc := w.f.Operator.GetOperatorAddressForChainIDAndConsAddr(w.f.Ctx, w.chain, w.cons[j])
	if !found {
		return false, -1
	}
	for o := 0; o < nOps; o++ {
		if bytes.Equal(acc, verifenv.OperatorAddr(o)) {
			return true, o
		}
	}
	return true, -2
}

func (w *world) inValSet(j int) bool {
	_, found := w.f.Dogfood.GetExocoreValidator(w.f.Ctx, w.cons[j])
	return found
}

func (w *world) keyIndex(k keytypes.WrappedConsKey) int {
	for j := range w.keys {
		if k.EqualsWrapped(w.keys[j]) {
			return j
		}
	}
	return -1
}

// beginClosingBlock: BeginBlock of the block that closes the current dogfood epoch (the epochs
// module calls the hook before it stores the incremented epoch number).
func (w *world) beginClosingBlock() {
	// hook order of app.go: the operator module recomputes the voting powers before dogfood runs
	w.f.Operator.EpochsHooks().AfterEpochEnd(w.f.Ctx, verifenv.EpochDay, w.epoch)
	w.f.Dogfood.EpochsHooks().AfterEpochEnd(w.f.Ctx, verifenv.EpochDay, w.epoch)
	w.pendingEnd = true
	w.closing = w.epoch
	w.epoch++
	w.putEpoch()
}

// endBlock: EndBlock of that block: matured opt-outs, prunings and holds are applied and the
// validator set is updated.
func (w *world) endBlock() {
	w.f.Dogfood.EndBlock(w.f.Ctx)
	w.pendingEnd = false
	for j := range w.keys {
		w.wasVal[j] = w.inValSet(j)
		if w.dueAt[j] == w.closing {
			w.dueAt[j] = -1
			w.pruneQueued[j] = false
		}
	}
	for o := range w.removing {
		w.prevKey[o] = -1
		if w.removing[o] && w.optOutDue[o] == w.closing {
			w.removing[o] = false
			w.optOutDue[o] = -1
			w.current[o] = -1
		}
	}
	for _, r := range w.recs {
		if r.held && !r.released && r.due == w.closing {
			r.released = true
		}
	}
}

// step performs one operation chosen symbolically and updates the ghost state.
func (w *world) step(t int) {
	f := w.f
	nKinds := 5
	if w.withUndelegations {
		nKinds = 6
	}
	op := verifrt.Choice(nm("step%d_op", t), nKinds)
	if op == 3 {
		verifrt.Assume(!w.pendingEnd)
		w.beginClosingBlock()
		return
	}
	if op == 4 {
		verifrt.Assume(w.pendingEnd)
		w.endBlock()
		return
	}
	o := verifrt.Choice(nm("step%d_operator", t), nOps)
	acc := verifenv.OperatorAddr(o)
	removing := f.Operator.IsOperatorRemovingKeyFromChainID(f.Ctx, acc, w.chain)
	switch op {
	case 0, 1:
		j := verifrt.Choice(nm("step%d_key", t), len(w.keys))
		_, heldBy := w.rev(j)
		var err error
		if op == 0 {
			_, err = w.ms.OptIntoAVS(sdk.WrapSDKContext(f.Ctx), &operatortypes.OptIntoAVSReq{FromAddress: verifenv.OperatorBech[o], AvsAddress: w.avs, PublicKeyJSON: keyJSON(j)})
		} else {
			_, err = w.ms.SetConsKey(sdk.WrapSDKContext(f.Ctx), &operatortypes.SetConsKeyReq{Address: verifenv.OperatorBech[o], AvsAddress: w.avs, PublicKeyJSON: keyJSON(j)})
		}
		if err == nil {
			verifrt.Assert(!removing, "an operator that is removing its key cannot set a new one")
			verifrt.Assert(verifrt.Any(heldBy == -1, w.current[o] == j), "a key that is reserved (current, replaced or being removed and not yet matured) is never handed out")
			old := w.current[o]
			if old >= 0 && old != j {
				if w.wasVal[old] {
					w.dueAt[old] = w.epoch + unbondingEpochs
					w.pruneQueued[old] = true
				}
				if w.prevKey[o] < 0 {
					w.prevKey[o] = old
				}
			}
			w.current[o] = j
			verifrt.Cover(nm("key set by op %d", op))
		}
	case 2:
		_, err := w.ms.OptOutOfAVS(sdk.WrapSDKContext(f.Ctx), &operatortypes.OptOutOfAVSReq{FromAddress: verifenv.OperatorBech[o], AvsAddress: w.avs})
		if err == nil {
			old := w.current[o]
			if old >= 0 && w.wasVal[old] {
				w.dueAt[old] = w.epoch + unbondingEpochs
				w.removing[o] = true
				w.optOutDue[o] = w.epoch + unbondingEpochs
			} else {
				// nothing to wait for: the removal completes at once
				w.current[o] = -1
			}
			verifrt.Cover("opted out")
		}
	case 5:
		// an undelegation from operator o starts: the delegation module tells dogfood (inside the
		// transaction: a failure or panic rolls the transaction back)
		r := &heldRec{key: delegationtypes.GetUndelegationRecordKey(50, uint64(t+1), verifenv.TxHashes[0], verifenv.OperatorBech[o])}
		cctx, write := f.Ctx.CacheContext()
		var err error
		panicked := verifrt.Try(func() {
			err = f.Dogfood.DelegationHooks().AfterUndelegationStarted(cctx, acc, r.key)
		})
		if panicked || err != nil {
			verifrt.Cover("undelegation transaction rejected")
			return
		}
		write()
		// reference: held until the opt-out matures, or for the unbonding period if the
		// operator's current or previous key is in the validator set, else not held at all
		switch {
		case w.removing[o]:
			r.held, r.due = true, w.optOutDue[o]
		case w.current[o] >= 0 && (w.wasVal[w.current[o]] || (w.prevKey[o] >= 0 && w.wasVal[w.prevKey[o]])):
			r.held, r.due = true, w.epoch+unbondingEpochs
		}
		w.recs = append(w.recs, r)
		if r.held {
			verifrt.Cover("undelegation held")
		} else {
			verifrt.Cover("undelegation not held")
		}
	}
}

// check asserts the registry invariant.
func (w *world) check() {
	f := w.f
	st := f.Ctx.KVStore(verifrt.StoreKey(operatortypes.StoreKey))
	for o := 0; o < nOps; o++ {
		acc := verifenv.OperatorAddr(o)
		found, key, err := f.Operator.GetOperatorConsKeyForChainID(f.Ctx, acc, w.chain)
		verifrt.Assert(err == nil, "key lookup of a registered operator on a registered chain does not fail")
		second := st.Get(operatortypes.KeyForChainIDAndOperatorToConsKey(w.chain, acc))
		first := st.Get(operatortypes.KeyForOperatorAndChainIDToConsKey(acc, w.chain))
		verifrt.Assert(verifrt.All((second != nil) == found, (first != nil) == found), "operator->chain->key and chain->operator->key list the same operators")
		if found {
			verifrt.Assert(bytes.Equal(first, second), "operator->chain->key and chain->operator->key hold the same key")
			j := w.keyIndex(key)
			verifrt.Assert(j >= 0, "the stored key is one that was submitted")
			if j >= 0 {
				has, who := w.rev(j)
				verifrt.Assert(verifrt.All(has, who == o), "the consensus address of an operator's key resolves to that operator")
			}
		}
	}
	for j := range w.keys {
		owners := 0
		for o := 0; o < nOps; o++ {
			found, key, _ := f.Operator.GetOperatorConsKeyForChainID(f.Ctx, verifenv.OperatorAddr(o), w.chain)
			if found && key.EqualsWrapped(w.keys[j]) {
				owners++
			}
		}
		verifrt.Assert(owners <= 1, "a consensus key belongs to at most one operator")
		has, who := w.rev(j)
		if has {
			verifrt.Assert(who >= 0, "a consensus address resolves to a registered operator")
			mine := false
			if who >= 0 {
				found, key, _ := f.Operator.GetOperatorConsKeyForChainID(f.Ctx, verifenv.OperatorAddr(who), w.chain)
				mine = found && key.EqualsWrapped(w.keys[j])
			}
			verifrt.Assert(verifrt.Any(mine, w.inValSet(j), w.dueAt[j] >= 0), "a consensus address resolves to an operator only while it is that operator's key, in the validator set, or within the unbonding period after its replacement or removal (no stale reservation)")
		}
		if verifrt.Any(w.inValSet(j), w.dueAt[j] >= 0) {
			verifrt.Assert(has, "a consensus address in the validator set, or replaced/removed less than the unbonding period ago, still resolves to its operator (slashable)")
		}
	}
}

// checkQueues asserts the unbonding-queue clauses (C16): every announced undelegation is held
// exactly from its start to the EndBlock of the block closing its due epoch, and an opt-out
// completes exactly then.
func (w *world) checkQueues() {
	f := w.f
	for _, r := range w.recs {
		want := uint64(0)
		if r.held && !r.released {
			want = 1
		}
		verifrt.Assert(f.Deleg.GetUndelegationHoldCount(f.Ctx, r.key) == want, "an undelegation is held exactly from its start until the block that closes its unbonding epoch ends: not released earlier, later or twice, and not held at all when the operator's keys are not in the validator set")
	}
	// whatever is waiting is on the list of its due epoch (or on the pending list while that
	// epoch's closing block is being processed): nothing is left behind or lost from a queue
	listed := func(list [][]byte, x []byte) bool {
		n := 0
		for _, e := range list {
			if bytes.Equal(e, x) {
				n++
			}
		}
		return n == 1
	}
	for j := range w.keys {
		if w.pruneQueued[j] && w.dueAt[j] >= 0 {
			list := f.Dogfood.GetConsensusAddrsToPrune(f.Ctx, w.dueAt[j])
			if w.pendingEnd && w.closing == w.dueAt[j] {
				list = f.Dogfood.GetPendingConsensusAddrs(f.Ctx).List
			}
			verifrt.Assert(listed(list, w.cons[j]), "a replaced validator key is queued exactly once for pruning at its unbonding epoch")
		}
	}
	for o := 0; o < nOps; o++ {
		if w.removing[o] {
			list := f.Dogfood.GetOptOutsToFinish(f.Ctx, w.optOutDue[o])
			if w.pendingEnd && w.closing == w.optOutDue[o] {
				list = f.Dogfood.GetPendingOptOuts(f.Ctx).List
			}
			verifrt.Assert(listed(list, verifenv.OperatorAddr(o)), "an opting-out validator is queued exactly once for completion at its unbonding epoch")
		}
	}
	for _, r := range w.recs {
		if r.held && !r.released {
			list := f.Dogfood.GetUndelegationsToMature(f.Ctx, r.due)
			if w.pendingEnd && w.closing == r.due {
				list = f.Dogfood.GetPendingUndelegations(f.Ctx).List
			}
			verifrt.Assert(listed(list, r.key), "a held undelegation is queued exactly once for release at its unbonding epoch")
		}
	}
	for o := 0; o < nOps; o++ {
		verifrt.Assert(f.Operator.IsOperatorRemovingKeyFromChainID(f.Ctx, verifenv.OperatorAddr(o), w.chain) == w.removing[o], "an opt-out of a validator completes exactly in the block that closes its unbonding epoch, an opt-out of a non-validator at once")
	}
}

// bootstrap builds the initial state: empty registry, or one / two operators already in the
// validator set (built with the same operations, so it is a reachable state).
func (w *world) bootstrap(init int) {
	// initial state: empty registry, or one / two operators already in the validator set
	// (built with the same operations, so it is a reachable state)
	for o := 0; o < init; o++ {
		_, err := w.ms.OptIntoAVS(sdk.WrapSDKContext(w.f.Ctx), &operatortypes.OptIntoAVSReq{FromAddress: verifenv.OperatorBech[o], AvsAddress: w.avs, PublicKeyJSON: keyJSON(o)})
		verifrt.Assume(err == nil)
		w.current[o] = o
	}
	if init > 0 {
		w.beginClosingBlock()
		w.endBlock()
		for o := 0; o < init; o++ {
			verifrt.Assume(w.wasVal[o])
		}
		w.check()
	}
}

// VerifC07KeyRegistry: a bounded sequence of opt-in-with-key, key replacement, opt-out and epoch
// end operations by two operators over three keys, through the real message server, operator
// keeper, dogfood hooks and dogfood EndBlock; the registry invariant is asserted after every step.
func VerifC07KeyRegistry() {
	w := setup()
	w.bootstrap(verifrt.Choice("initial_validators", 3))
	w.withUndelegations = verifrt.Param("undelegations", 0) == 1
	steps := verifrt.Param("steps", 3)
	for t := 0; t < steps; t++ {
		w.step(t)
		w.check()
		w.checkQueues()
	}
}
