//go:build verif

package c01

import (
	"github.com/ExocoreNetwork/exocore/verifenv"
	"github.com/ExocoreNetwork/exocore/verifrt"
)

// VerifC02Associate: one AssociateOperatorWithStaker or DissociateOperatorFromStaker step for
// staker 0 from an arbitrary invariant-satisfying ledger (any existing association): accepted
// exactly when the staker is unassociated (resp. associated); the operator's self-share moves by
// exactly the staker's shares with that operator, nothing else changes, and the self-share clause
// of the invariant holds for the new association.
func VerifC02Associate() {
	e, l := setup()
	pre := l.Read()
	assoc := append([]int{}, l.Assoc...)
	if verifrt.Bool("dissociate") {
		err := e.Deleg.DissociateOperatorFromStaker(e.Ctx, verifenv.LzID, verifenv.StakerAddr(0))
		post := l.Read()
		verifrt.Assert((err == nil) == (assoc[0] >= 0), "dissociation is accepted exactly for an associated staker")
		if err != nil {
			l.AssertSame(pre, post, "failed dissociation leaves the ledger unchanged")
			return
		}
		o := assoc[0]
		verifrt.Assert(post.PoolOpShare[o].Equal(pre.PoolOpShare[o].Sub(pre.Share[0][o])), "the operator's self-share drops by exactly the staker's shares")
		assoc[0] = -1
		post2 := *post
		post2.PoolOpShare = pre.PoolOpShare
		l.AssertSame(pre, &post2, "dissociation changes nothing but the self-share")
		l.AssertInv(post, assoc, "after dissociate")
		return
	}
	o := verifrt.Choice("operator", l.NO)
	err := e.Deleg.AssociateOperatorWithStaker(e.Ctx, verifenv.LzID, verifenv.OperatorAddr(o), verifenv.StakerAddr(0))
	post := l.Read()
	verifrt.Assert((err == nil) == (assoc[0] < 0), "association is accepted exactly for a staker without an associated operator")
	if err != nil {
		l.AssertSame(pre, post, "failed association leaves the ledger unchanged")
		return
	}
	verifrt.Assert(post.PoolOpShare[o].Equal(pre.PoolOpShare[o].Add(pre.Share[0][o])), "the operator's self-share grows by exactly the staker's shares")
	assoc[0] = o
	post2 := *post
	post2.PoolOpShare = pre.PoolOpShare
	l.AssertSame(pre, &post2, "association changes nothing but the self-share")
	l.AssertInv(post, assoc, "after associate")
}
