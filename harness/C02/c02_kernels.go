//go:build verif

package keeper

import (
	sdkmath "cosmossdk.io/math"
	"github.com/ExocoreNetwork/exocore/verifrt"
)

// pool state reachable after slashing: 1 <= T, T*10^18 <= S (amount <= share total), S,T within type range
func verifPool() (S sdkmath.LegacyDec, T sdkmath.Int) {
	S = verifrt.Dec("S")
	T = verifrt.Int("T")
	max := sdkmath.NewIntFromBigInt(verifMaxAmount())
	verifrt.Assume(verifrt.All(T.IsPositive(), T.LTE(max)))
	verifrt.Assume(S.GTE(sdkmath.LegacyNewDecFromInt(T)))
	verifrt.Assume(S.LTE(sdkmath.LegacyNewDecFromInt(max)))
	return
}

// VerifC02RoundTrip: delegate x into an arbitrary reachable pool, then redeem exactly the
// minted shares: tokens back in [x-1, x] and never more than the pool holds.
func VerifC02RoundTrip() {
	S, T := verifPool()
	x := verifrt.Int("x")
	verifrt.Assume(verifrt.All(x.IsPositive(), x.LTE(sdkmath.NewIntFromBigInt(verifMaxAmount()))))
	// LegacyDec's 315-bit overflow panic (recovered by DeliverTx) is outside this claim
	if verifrt.Try(func() { verifC02RoundTripBody(S, T, x) }) {
		verifrt.Cover("dec-overflow-panic")
	}
}

func verifC02RoundTripBody(S sdkmath.LegacyDec, T, x sdkmath.Int) {
	sh, err := SharesFromTokens(S, x, T)
	verifrt.Assert(err == nil, "SharesFromTokens succeeds on a non-empty pool")
	verifrt.Assert(!sh.IsNegative(), "minted shares non-negative")
	S2 := S.Add(sh)
	T2 := T.Add(x)
	back, err := TokensFromShares(sh, S2, T2)
	verifrt.Assert(err == nil, "TokensFromShares succeeds")
	verifrt.Assert(back.LTE(x), "round trip returns at most x")
	verifrt.Assert(back.GTE(x.SubRaw(1)), "round trip returns at least x-1")
	verifrt.Assert(back.LTE(T2), "redeemed amount never exceeds the pool")
}
