//go:build verif

package c02

import (
	sdkmath "cosmossdk.io/math"

	delegationkeeper "github.com/ExocoreNetwork/exocore/x/delegation/keeper"

	"github.com/ExocoreNetwork/exocore/verifenv"
	"github.com/ExocoreNetwork/exocore/verifrt"
)

func absLE1(a, b sdkmath.Int) bool {
	d := a.Sub(b)
	return d.LTE(sdkmath.OneInt()) && d.GTE(sdkmath.OneInt().Neg())
}

// VerifC02Fairness: staker A (no prior position) delegates x into a pool that co-delegator B
// shares at an arbitrary reachable exchange rate, then undelegates all of it. Through the real
// DelegateTo / UndelegateFrom: A gets back x or x-1, and B's redeemable value moves by at most
// one base unit at each step.
func VerifC02Fairness() {
	bits := verifrt.Param("amount_bits", 100)
	e := verifenv.NewLedgerEnv(100, 1)
	e.RegisterAsset(verifenv.LSTAddrHex, 18, sdkmath.ZeroInt())
	max := sdkmath.NewInt(1)
	for i := 0; i < bits; i++ {
		max = max.MulRaw(2)
	}
	asset := verifenv.LSTAssetID()
	// B's position and the pool: T tokens for S shares, B holds shB <= S (others hold the rest)
	T := verifrt.Int("pool")
	S := verifrt.Dec("total_share")
	shB := verifrt.Dec("share_b")
	verifrt.Assume(verifrt.All(T.IsPositive(), T.LTE(max)))
	verifrt.Assume(verifrt.All(S.GTE(sdkmath.LegacyNewDecFromInt(T)), S.LTE(sdkmath.LegacyNewDecFromInt(max))))
	verifrt.Assume(verifrt.All(shB.GTE(sdkmath.LegacyOneDec()), shB.LTE(S)))
	other := S.Sub(shB)
	verifrt.Assume(verifrt.Any(other.IsZero(), other.GTE(sdkmath.LegacyOneDec())))
	e.PutOperatorAsset(0, asset, assetsInfo(T, S))
	e.PutDelegation(1, 0, asset, delegAmounts(shB))
	if other.IsPositive() {
		e.PutDelegation(2, 0, asset, delegAmounts(other))
	}
	x := verifrt.Int("x")
	verifrt.Assume(verifrt.All(x.IsPositive(), x.LTE(max)))
	e.PutStakerAsset(0, asset, stakerInfo(x))

	// sdk.Int / LegacyDec overflow panics (256 / 315 bits; recovered by DeliverTx) are outside the claim
	if verifrt.Try(func() { verifC02FairnessBody(e, asset, shB, S, T, x) }) {
		verifrt.Cover("overflow-panic")
	}
}

func verifC02FairnessBody(e *verifenv.Env, asset string, shB, S sdkmath.LegacyDec, T, x sdkmath.Int) {
	valB0, err := delegationkeeper.TokensFromShares(shB, S, T)
	verifrt.Assume(err == nil)
	verifrt.Assume(e.Deleg.DelegateTo(e.Ctx, verifenv.DelegParams(0, 0, verifenv.LSTAddr(), x, 1)) == nil)
	p1, _ := e.Assets.GetOperatorSpecifiedAssetInfo(e.Ctx, verifenv.OperatorAddr(0), asset)
	valB1, err := delegationkeeper.TokensFromShares(shB, p1.TotalShare, p1.TotalAmount)
	verifrt.Assert(verifrt.All(err == nil, absLE1(valB1, valB0)), "a delegation changes a co-delegator's redeemable value by at most one base unit")

	err = e.Deleg.UndelegateFrom(e.Ctx, verifenv.DelegParams(0, 0, verifenv.LSTAddr(), x, 2))
	if err != nil {
		// x may no longer be redeemable (x-1 is): then x-1 must be accepted
		verifrt.Assert(x.GT(sdkmath.OneInt()), "undelegating what was just delegated fails only by the one-unit rounding")
		verifrt.Assume(x.GT(sdkmath.OneInt()))
		err = e.Deleg.UndelegateFrom(e.Ctx, verifenv.DelegParams(0, 0, verifenv.LSTAddr(), x.SubRaw(1), 2))
		verifrt.Assert(err == nil, "x-1 is always redeemable right after delegating x")
		if err != nil {
			return
		}
	}
	recs, rerr := e.Deleg.GetStakerUndelegationRecords(e.Ctx, verifenv.StakerID(0), asset)
	verifrt.Assert(verifrt.All(rerr == nil, len(recs) == 1), "one pending record for the undelegation")
	if rerr != nil || len(recs) != 1 {
		return
	}
	back := recs[0].Amount
	verifrt.Assert(back.LTE(x), "the delegator gets back at most x")
	verifrt.Assert(back.GTE(x.SubRaw(1)), "the delegator gets back at least x-1")
	p2, _ := e.Assets.GetOperatorSpecifiedAssetInfo(e.Ctx, verifenv.OperatorAddr(0), asset)
	valB2, err := delegationkeeper.TokensFromShares(shB, p2.TotalShare, p2.TotalAmount)
	verifrt.Assert(verifrt.All(err == nil, absLE1(valB2, valB1)), "an undelegation changes a co-delegator's redeemable value by at most one base unit")
	verifrt.Assert(valB2.GTE(valB0.SubRaw(1)), "after the round trip the co-delegator is not worse off by more than one base unit")
}
