//go:build verif

package c02

import (
	sdkmath "cosmossdk.io/math"

	assetstypes "github.com/ExocoreNetwork/exocore/x/assets/types"
	delegationtypes "github.com/ExocoreNetwork/exocore/x/delegation/types"
)

func assetsInfo(T sdkmath.Int, S sdkmath.LegacyDec) assetstypes.OperatorAssetInfo {
	return assetstypes.OperatorAssetInfo{TotalAmount: T, PendingUndelegationAmount: sdkmath.ZeroInt(), TotalShare: S, OperatorShare: sdkmath.LegacyZeroDec()}
}

func delegAmounts(sh sdkmath.LegacyDec) delegationtypes.DelegationAmounts {
	return delegationtypes.DelegationAmounts{UndelegatableShare: sh, WaitUndelegationAmount: sdkmath.ZeroInt()}
}

func stakerInfo(w sdkmath.Int) assetstypes.StakerAssetInfo {
	return assetstypes.StakerAssetInfo{TotalDepositAmount: w, WithdrawableAmount: w, PendingUndelegationAmount: sdkmath.ZeroInt()}
}
