//go:build verif

package keeper

import (
	"math/big"

	"github.com/ExocoreNetwork/exocore/verifrt"
)

// Largest amount considered. LegacyDec panics beyond 315 bits, and share*amount reaches
// 2^(2*bits)*10^18, so 127 is the largest bound free of that (recovered) overflow panic.
func verifMaxAmount() *big.Int {
	return new(big.Int).Lsh(big.NewInt(1), uint(verifrt.Param("amount_bits", 255)))
}
