//go:build verif

package c16

import (
	"bytes"
	"fmt"

	sdkmath "cosmossdk.io/math"
	sdk "github.com/cosmos/cosmos-sdk/types"

	dogfoodtypes "github.com/ExocoreNetwork/exocore/x/dogfood/types"

	"github.com/ExocoreNetwork/exocore/verifenv"
	"github.com/ExocoreNetwork/exocore/verifrt"
)

func nm(f string, a ...interface{}) string { return fmt.Sprintf(f, a...) }

func entry(kind, i int) []byte {
	b := make([]byte, 20)
	for j := range b {
		b[j] = byte(0x10*(kind+1) + i + 1)
	}
	return b
}

func sameList(a [][]byte, b [][]byte) bool {
	if len(a) != len(b) {
		return false
	}
	for i := range a {
		if !bytes.Equal(a[i], b[i]) {
			return false
		}
	}
	return true
}

// VerifC16Queues: the three epoch-indexed dogfood queues (opt-outs, consensus addresses to prune,
// undelegations to mature). From a state with symbolic contents at epochs E and E+1:
//  (a) an append to epoch X extends exactly that queue at that epoch, in order;
//  (b) AfterEpochEnd(identifier, E) moves exactly the entries queued for E to the pending lists,
//      clears them and leaves E+1 alone; another identifier does nothing.
func VerifC16Queues() {
	f := verifenv.NewFull(100)
	k := f.Dogfood
	k.SetParams(f.Ctx, dogfoodtypes.Params{EpochsUntilUnbonded: 7, EpochIdentifier: verifenv.EpochDay, MaxValidators: 4, HistoricalEntries: 10, MinSelfDelegation: sdkmath.ZeroInt()})
	E := verifrt.I64("epoch")
	verifrt.Assume(verifrt.All(E >= 1, E < (int64(1)<<40)))
	maxn := verifrt.Param("entries", 2)
	// initial contents: n entries per (queue kind, epoch offset)
	var init [3][2][][]byte
	for kind := 0; kind < 3; kind++ {
		for off := 0; off < 2; off++ {
			n := verifrt.Choice(nm("n_kind%d_off%d", kind, off), maxn+1)
			for i := 0; i < n; i++ {
				v := entry(kind, i+3*off)
				init[kind][off] = append(init[kind][off], v)
				switch kind {
				case 0:
					k.AppendOptOutToFinish(f.Ctx, E+int64(off), sdk.AccAddress(v))
				case 1:
					k.AppendConsensusAddrToPrune(f.Ctx, E+int64(off), sdk.ConsAddress(v))
				case 2:
					k.AppendUndelegationToMature(f.Ctx, E+int64(off), v)
				}
			}
		}
	}
	read := func(kind, off int) [][]byte {
		switch kind {
		case 0:
			return k.GetOptOutsToFinish(f.Ctx, E+int64(off))
		case 1:
			return k.GetConsensusAddrsToPrune(f.Ctx, E+int64(off))
		}
		return k.GetUndelegationsToMature(f.Ctx, E+int64(off))
	}
	for kind := 0; kind < 3; kind++ {
		for off := 0; off < 2; off++ {
			verifrt.Assert(sameList(read(kind, off), init[kind][off]), "each queue holds exactly what was appended for that epoch, in order")
		}
	}
	matching := verifrt.Bool("identifier_matches")
	id := verifenv.EpochDay
	if !matching {
		id = verifenv.EpochHour
	}
	k.EpochsHooks().AfterEpochEnd(f.Ctx, id, E)
	po := k.GetPendingOptOuts(f.Ctx).List
	pc := k.GetPendingConsensusAddrs(f.Ctx).List
	pu := k.GetPendingUndelegations(f.Ctx).List
	if !matching {
		verifrt.Assert(verifrt.All(len(po) == 0, len(pc) == 0, len(pu) == 0, !k.IsEpochEnd(f.Ctx)), "another identifier's epoch end releases nothing")
		for kind := 0; kind < 3; kind++ {
			verifrt.Assert(sameList(read(kind, 0), init[kind][0]), "another identifier's epoch end leaves the queues alone")
		}
		return
	}
	verifrt.Assert(k.IsEpochEnd(f.Ctx), "the epoch end is marked for EndBlock")
	verifrt.Assert(sameList(po, init[0][0]), "exactly the opt-outs queued for the ended epoch become pending")
	verifrt.Assert(sameList(pc, init[1][0]), "exactly the consensus addresses queued for the ended epoch become pending")
	verifrt.Assert(sameList(pu, init[2][0]), "exactly the undelegations queued for the ended epoch become pending")
	for kind := 0; kind < 3; kind++ {
		verifrt.Assert(len(read(kind, 0)) == 0, "the ended epoch's queue is cleared (nothing released twice)")
		verifrt.Assert(sameList(read(kind, 1), init[kind][1]), "entries of the following epoch are not released early")
	}
}
