//go:build verif

package keeper

import (
	"math/big"

	sdkmath "cosmossdk.io/math"
	sdk "github.com/cosmos/cosmos-sdk/types"
	authtypes "github.com/cosmos/cosmos-sdk/x/auth/types"
	"github.com/ethereum/go-ethereum/common"
	"github.com/ethereum/go-ethereum/core"
	evmtypes "github.com/evmos/evmos/v16/x/evm/types"

	"github.com/ExocoreNetwork/exocore/verifrt"
)

// bank stub: fee collector and one account, single denom
type verifBank struct {
	evmtypes.BankKeeper
	collector sdkmath.Int
	account   sdkmath.Int
	to        sdk.AccAddress
}

func (b *verifBank) SendCoinsFromModuleToAccount(_ sdk.Context, module string, rcpt sdk.AccAddress, amt sdk.Coins) error {
	if module != authtypes.FeeCollectorName || len(amt) != 1 {
		return evmtypes.ErrInvalidRefund
	}
	if b.collector.LT(amt[0].Amount) {
		return evmtypes.ErrInvalidRefund
	}
	b.collector = b.collector.Sub(amt[0].Amount)
	b.account = b.account.Add(amt[0].Amount)
	b.to = rcpt
	return nil
}

type verifMsg struct {
	core.Message
	from                     common.Address
	gasPrice, feeCap, tipCap *big.Int
}

func (m verifMsg) From() common.Address { return m.from }
func (m verifMsg) GasPrice() *big.Int   { return m.gasPrice }
func (m verifMsg) GasFeeCap() *big.Int  { return m.feeCap }
func (m verifMsg) GasTipCap() *big.Int  { return m.tipCap }

// VerifC19RefundGas: unused gas is refunded to the sender from the fee collector at the price
// the gas was bought at (the effective gas price of the message), nothing else moves.
func VerifC19RefundGas() {
	ctx := verifrt.NewContext(10, 1700000000, "exocoretestnet_233-1")
	limit := new(big.Int).Lsh(big.NewInt(1), 100)
	price := verifrt.BigInt("effective_gas_price")
	feeCap := verifrt.BigInt("fee_cap")
	tip := verifrt.BigInt("tip_cap")
	verifrt.Assume(verifrt.All(price.Sign() >= 0, price.Cmp(limit) < 0, feeCap.Cmp(price) >= 0, feeCap.Cmp(limit) < 0, tip.Sign() >= 0, tip.Cmp(feeCap) <= 0))
	leftover := verifrt.U64("leftover_gas")
	coll := verifrt.Int("fee_collector")
	acc := verifrt.Int("sender_balance")
	max := sdkmath.NewIntFromBigInt(new(big.Int).Lsh(big.NewInt(1), 200))
	verifrt.Assume(verifrt.All(!coll.IsNegative(), coll.LTE(max), !acc.IsNegative(), acc.LTE(max)))
	bank := &verifBank{collector: coll, account: acc}
	k := &Keeper{bankKeeper: bank}
	from := common.HexToAddress("0x00000000000000000000000000000000000000c1")
	err := k.RefundGas(ctx, verifMsg{from: from, gasPrice: price, feeCap: feeCap, tipCap: tip}, leftover, "hua")
	want := sdkmath.NewIntFromBigInt(new(big.Int).Mul(new(big.Int).SetUint64(leftover), price))
	if err == nil {
		verifrt.Assert(bank.account.Equal(acc.Add(want)), "the sender is refunded leftover gas x the price the gas was bought at")
		verifrt.Assert(bank.collector.Equal(coll.Sub(want)), "the refund comes out of the fee collector, which keeps gas used x effective price")
		if want.IsPositive() {
			verifrt.Assert(string(bank.to) == string(from.Bytes()), "the refund goes to the sender")
		}
	} else {
		verifrt.Assert(verifrt.All(bank.account.Equal(acc), bank.collector.Equal(coll)), "a failed refund moves nothing")
		verifrt.Assert(coll.LT(want), "the refund fails only when the fee collector cannot cover it")
	}
}
