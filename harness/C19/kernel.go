//go:build verif

package keeper

import "github.com/ExocoreNetwork/exocore/verifrt"

// VerifC19GasToRefund: refund = min(available, consumed/quotient); never above either bound.
func VerifC19GasToRefund() {
	avail := verifrt.U64("available_refund")
	used := verifrt.U64("gas_consumed")
	q := verifrt.U64("quotient")
	verifrt.Assume(verifrt.All(q >= 1, q <= 16))
	r := GasToRefund(avail, used, q)
	verifrt.Assert(r <= avail, "refund never exceeds the refund counter")
	verifrt.Assert(r <= used/q, "refund never exceeds gasConsumed/quotient")
	verifrt.Assert(verifrt.Any(r == avail, r == used/q), "refund is the smaller of the two caps")
	verifrt.Assert(r <= used, "refund never exceeds the gas consumed")
}
