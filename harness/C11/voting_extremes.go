//go:build verif

package c11

import (
	"math/big"

	sdkmath "cosmossdk.io/math"
	"github.com/cosmos/cosmos-sdk/store/prefix"

	assetstypes "github.com/ExocoreNetwork/exocore/x/assets/types"
	delegationtypes "github.com/ExocoreNetwork/exocore/x/delegation/types"
	epochstypes "github.com/ExocoreNetwork/exocore/x/epochs/types"
	operatortypes "github.com/ExocoreNetwork/exocore/x/operator/types"
	oracletypes "github.com/ExocoreNetwork/exocore/x/oracle/types"

	"github.com/ExocoreNetwork/exocore/verifenv"
	"github.com/ExocoreNetwork/exocore/verifrt"
)

// VerifC11VotingPowerExtremes: the operator module's epoch-end hook (BeginBlock) with one
// opted-in operator whose pool amount and whose asset price are extreme but storable values (any
// amount a deposit can carry, any price a round can record) and token / price decimals anywhere
// in their types' ranges: the hook must not panic.
func VerifC11VotingPowerExtremes() {
	f := verifenv.NewFull(100)
	putDayEpoch(f)
	asset := verifenv.LSTAssetID()
	dec := []uint32{0, 18, 77, 255}[verifrt.Choice("asset_decimals", 4)]
	f.Env.RegisterAsset(verifenv.LSTAddrHex, dec, sdkmath.ZeroInt())
	bits := verifrt.Param("amount_bits", 255)
	price := verifenv.SymAmount("price", bits)
	verifrt.Assume(price.IsPositive())
	pd := []uint8{0, 18, 255}[verifrt.Choice("price_decimals", 3)]
	f.Oracle.Prices[asset] = oracletypes.Price{Value: price, Decimal: pd}
	f.RegisterAVS(verifenv.AVSAddr, []string{asset}, 0, verifenv.EpochDay)
	f.RegisterOperator(0)
	verifrt.Assume(f.Operator.SetOptedInfo(f.Ctx, verifenv.OperatorBech[0], verifenv.AVSAddr, &operatortypes.OptedInfo{OptedInHeight: 10, OptedOutHeight: operatortypes.DefaultOptedOutHeight}) == nil)
	f.PutUSDValue(verifenv.AVSAddr, 0, operatortypes.OperatorOptedUSDValue{SelfUSDValue: sdkmath.LegacyZeroDec(), TotalUSDValue: sdkmath.LegacyZeroDec(), ActiveUSDValue: sdkmath.LegacyZeroDec()})
	amt := verifenv.SymAmount("pool_amount", bits)
	verifrt.Assume(amt.IsPositive())
	share := sdkmath.LegacyNewDecFromInt(amt)
	f.Env.Ctx = f.Ctx
	f.Env.PutOperatorAsset(0, asset, assetstypes.OperatorAssetInfo{TotalAmount: amt, PendingUndelegationAmount: sdkmath.ZeroInt(), TotalShare: share, OperatorShare: sdkmath.LegacyZeroDec()})
	f.Env.PutDelegation(2, 0, asset, delegationtypes.DelegationAmounts{UndelegatableShare: share, WaitUndelegationAmount: sdkmath.ZeroInt()})
	verifrt.Assume(f.Deleg.AppendStakerForOperator(f.Ctx, verifenv.OperatorBech[0], asset, verifenv.StakerID(2)) == nil)
	panicked := verifrt.Try(func() { f.Operator.EpochsHooks().AfterEpochEnd(f.Ctx, verifenv.EpochDay, 5) })
	// two classes: values whose product and scale stay far inside the number types, and the
	// extreme rest (finding F26)
	tame := verifrt.All(new(big.Int).Mul(amt.BigInt(), price.BigInt()).Cmp(new(big.Int).Lsh(big.NewInt(1), 250)) < 0, int(dec)+int(pd) < 78)
	if tame {
		verifrt.Assert(!panicked, "the operator epoch-end hook never panics for amount x price below 2^250 and decimals summing to less than 78")
	} else {
		verifrt.Assert(!panicked, "F26: the operator epoch-end hook does not panic on extreme but storable amounts, prices and decimals")
	}
}

func putDayEpoch(f *verifenv.Full) {
	st := prefix.NewStore(f.Ctx.KVStore(verifrt.StoreKey(epochstypes.StoreKey)), epochstypes.KeyPrefixEpoch)
	ep := epochstypes.EpochInfo{Identifier: verifenv.EpochDay, Duration: 3600000000000, CurrentEpoch: 5, EpochCountingStarted: true}
	st.Set([]byte(verifenv.EpochDay), f.Env.Cdc.MustMarshal(&ep))
}
