//go:build verif

package c11

import (
	"fmt"

	sdkmath "cosmossdk.io/math"
	"github.com/cosmos/cosmos-sdk/store/prefix"

	avstypes "github.com/ExocoreNetwork/exocore/x/avs/types"
	epochstypes "github.com/ExocoreNetwork/exocore/x/epochs/types"
	operatortypes "github.com/ExocoreNetwork/exocore/x/operator/types"

	"github.com/ExocoreNetwork/exocore/verifenv"
	"github.com/ExocoreNetwork/exocore/verifrt"
)

const taskAddr = "0x00000000000000000000000000000000000000b1"

func nm(f string, a ...interface{}) string { return fmt.Sprintf(f, a...) }

func symDec(name string, bits int) sdkmath.LegacyDec {
	v := verifrt.Dec(name)
	verifrt.Assume(verifrt.All(!v.IsNegative(), v.LTE(sdkmath.LegacyNewDecFromInt(verifenv.SymAmount(name+"_cap", bits)))))
	return v
}

// VerifC11AVSEpochEnd: the AVS epoch-end hook (runs inside BeginBlock, nothing recovers a panic)
// from a state that message handling can produce: a task, up to n operators whose phase-one
// results were accepted by SetTaskResultInfo (with any signature bytes, including zero-length
// ones), arbitrary operator / AVS values, at the epoch that ends the statistical period.
func VerifC11AVSEpochEnd() {
	n := verifrt.Param("operators", 2)
	f := verifenv.NewFull(100)
	f.RegisterAVS(verifenv.AVSAddr, nil, 0, verifenv.EpochDay)
	info, _ := f.AVS.GetAVSInfo(f.Ctx, verifenv.AVSAddr)
	info.Info.TaskAddr = taskAddr
	verifrt.Assume(f.AVS.SetAVSInfo(f.Ctx, info.Info) == nil)
	start := verifrt.U64("starting_epoch")
	respP := verifrt.U64("response_period")
	statP := verifrt.U64("statistical_period")
	verifrt.Assume(verifrt.All(start < (uint64(1)<<32), respP < (uint64(1)<<32), statP < (uint64(1)<<32)))
	var optIn []string
	for o := 0; o < n; o++ {
		optIn = append(optIn, verifenv.OperatorBech[o])
	}
	verifrt.Assume(f.AVS.SetTaskInfo(f.Ctx, &avstypes.TaskInfo{TaskContractAddress: taskAddr, Name: "t", TaskId: 1, TaskResponsePeriod: respP,
		TaskStatisticalPeriod: statP, TaskChallengePeriod: 1, StartingEpoch: start, OptInOperators: optIn}) == nil)
	// phase one happens while the response window is open
	st := prefix.NewStore(f.Ctx.KVStore(verifrt.StoreKey(epochstypes.StoreKey)), epochstypes.KeyPrefixEpoch)
	ep := epochstypes.EpochInfo{Identifier: verifenv.EpochDay, Duration: 3600000000000, CurrentEpoch: int64(start), EpochCountingStarted: true}
	st.Set([]byte(verifenv.EpochDay), f.Env.Cdc.MustMarshal(&ep))
	submitted := 0
	for o := 0; o < n; o++ {
		f.RegisterOperator(o)
		verifrt.Assume(f.AVS.SetOperatorPubKey(f.Ctx, &avstypes.BlsPubKeyInfo{Operator: verifenv.OperatorBech[o], Name: "k", PubKey: verifrt.BLSPubKey()}) == nil)
		// 0 = no submission, 1 = 96-byte signature, 2 = zero-length (but non-nil) signature bytes
		kind := verifrt.Choice(nm("op%d_submission", o), 3)
		if kind == 0 {
			continue
		}
		sig := verifrt.BLSSign([]byte{byte(o)})
		if kind == 2 {
			sig = []byte{}
		}
		err := f.AVS.SetTaskResultInfo(f.Ctx, verifenv.OperatorBech[o], &avstypes.TaskResultInfo{OperatorAddress: verifenv.OperatorBech[o], BlsSignature: sig,
			TaskContractAddress: taskAddr, TaskId: 1, Stage: avstypes.TwoPhaseCommitOne})
		if err == nil {
			submitted++
		}
		// opt state and values at epoch end: arbitrary
		if verifrt.Bool(nm("op%d_opted_in", o)) {
			verifrt.Assume(f.Operator.SetOptedInfo(f.Ctx, verifenv.OperatorBech[o], verifenv.AVSAddr, &operatortypes.OptedInfo{OptedInHeight: 1, OptedOutHeight: operatortypes.DefaultOptedOutHeight}) == nil)
			f.PutUSDValue(verifenv.AVSAddr, o, operatortypes.OperatorOptedUSDValue{SelfUSDValue: symDec(nm("op%d_self", o), 64), TotalUSDValue: symDec(nm("op%d_total", o), 64), ActiveUSDValue: symDec(nm("op%d_active", o), 64)})
		}
	}
	if verifrt.Bool("avs_value_present") {
		f.PutAVSUSDValue(verifenv.AVSAddr, symDec("avs_value", 64))
	}
	end := int64(start) + int64(respP) + int64(statP)
	panicked := verifrt.Try(func() { f.AVS.EpochsHooks().AfterEpochEnd(f.Ctx, verifenv.EpochDay, end) })
	verifrt.Assert(!panicked, "the AVS epoch-end hook never panics on a state produced by accepted submissions")
	if panicked || submitted == 0 {
		return
	}
	ti, err := f.AVS.GetTaskInfo(f.Ctx, "1", taskAddr)
	verifrt.Assert(err == nil, "task info still readable")
	if err == nil {
		verifrt.Assert(len(ti.SignedOperators)+len(ti.NoSignedOperators) >= len(optIn) || len(ti.SignedOperators) <= n, "signer / non-signer lists cover the opted-in operators")
	}
}
