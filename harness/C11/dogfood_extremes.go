//go:build verif

package c06

import (
	"math/big"

	sdkmath "cosmossdk.io/math"
	"github.com/cosmos/cosmos-sdk/store/prefix"
	sdk "github.com/cosmos/cosmos-sdk/types"

	avstypes "github.com/ExocoreNetwork/exocore/x/avs/types"
	dogfoodtypes "github.com/ExocoreNetwork/exocore/x/dogfood/types"
	epochstypes "github.com/ExocoreNetwork/exocore/x/epochs/types"
	operatorkeeper "github.com/ExocoreNetwork/exocore/x/operator/keeper"
	operatortypes "github.com/ExocoreNetwork/exocore/x/operator/types"
	oracletypes "github.com/ExocoreNetwork/exocore/x/oracle/types"

	"github.com/ExocoreNetwork/exocore/verifenv"
	"github.com/ExocoreNetwork/exocore/verifrt"
)

// VerifC11DogfoodEndBlockExtremes: the dogfood EndBlock at an epoch end with one active operator
// whose active USD value is any non-negative value up to 2^usd_bits: it must not panic.
func VerifC11DogfoodEndBlockExtremes() {
	f := verifenv.NewFull(100)
	chain := avstypes.ChainIDWithoutRevision(f.Ctx.ChainID())
	st := prefix.NewStore(f.Ctx.KVStore(verifrt.StoreKey(epochstypes.StoreKey)), epochstypes.KeyPrefixEpoch)
	ep := epochstypes.EpochInfo{Identifier: verifenv.EpochDay, Duration: 3600000000000, CurrentEpoch: 5, EpochCountingStarted: true}
	st.Set([]byte(verifenv.EpochDay), f.Env.Cdc.MustMarshal(&ep))
	f.Dogfood.SetParams(f.Ctx, dogfoodtypes.Params{EpochsUntilUnbonded: 1, EpochIdentifier: verifenv.EpochDay, MaxValidators: 3, HistoricalEntries: 0, MinSelfDelegation: sdkmath.ZeroInt()})
	f.Env.RegisterAsset(verifenv.LSTAddrHex, 6, sdkmath.NewInt(1000))
	f.Oracle.Prices[verifenv.LSTAssetID()] = oracletypes.Price{Value: sdkmath.NewInt(1), Decimal: 0}
	_, err := f.AVS.RegisterAVSWithChainID(f.Ctx, &avstypes.AVSRegisterOrDeregisterParams{
		AvsName: "dogfood", AssetID: []string{verifenv.LSTAssetID()}, UnbondingPeriod: 1, EpochIdentifier: verifenv.EpochDay,
		ChainID: f.Ctx.ChainID(), AvsOwnerAddress: []string{verifenv.Authority}})
	verifrt.Assume(err == nil)
	avs := avstypes.GenerateAVSAddr(chain)
	ms := operatorkeeper.NewMsgServerImpl(*f.Operator)
	f.RegisterOperator(0)
	_, err = ms.OptIntoAVS(sdk.WrapSDKContext(f.Ctx), &operatortypes.OptIntoAVSReq{FromAddress: verifenv.OperatorBech[0], AvsAddress: avs, PublicKeyJSON: keyJSON(0)})
	verifrt.Assume(err == nil)
	v := verifrt.Dec("active_usd_value")
	limit := sdkmath.NewIntFromBigInt(new(big.Int).Lsh(big.NewInt(1), uint(verifrt.Param("usd_bits", 100))))
	verifrt.Assume(verifrt.All(!v.IsNegative(), v.LTE(sdkmath.LegacyNewDecFromInt(limit))))
	f.PutUSDValue(avs, 0, operatortypes.OperatorOptedUSDValue{SelfUSDValue: v, TotalUSDValue: v, ActiveUSDValue: v})
	f.Dogfood.MarkEpochEnd(f.Ctx)
	panicked := verifrt.Try(func() { f.Dogfood.EndBlock(f.Ctx) })
	fits := v.LT(sdkmath.LegacyNewDecFromInt(sdkmath.NewIntFromBigInt(new(big.Int).Lsh(big.NewInt(1), 63))))
	if fits {
		verifrt.Assert(!panicked, "the dogfood EndBlock never panics for active USD values below 2^63")
	} else {
		verifrt.Assert(!panicked, "F27: the dogfood EndBlock does not panic on an active USD value of 2^63 or more")
	}
}
