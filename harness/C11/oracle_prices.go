//go:build verif

package keeper

import (
	sdkmath "cosmossdk.io/math"

	"github.com/ExocoreNetwork/exocore/x/oracle/types"

	"github.com/ExocoreNetwork/exocore/verifrt"
)

// price strings of every class that can be in the store: a failed first round stores "", NST
// tokens store a balance bitmap, ordinary rounds store a decimal number
var verifC11PriceStrings = []string{"", "100", "0", "-5", "abc", "1e5", "0x10", "AAECAwQ=", " 7", "99999999999999999999999999999999999999999999999999999999999999999999999999999999"}

// VerifC11PriceGetters: the price getters that the operator module calls from its epoch-end hook
// (BeginBlock, nothing recovers a panic) over a stored latest round whose price text is of any
// class: no panic; a positive decimal number is returned as is, anything else yields the default
// price together with ErrGetPriceRoundNotFound.
func VerifC11PriceGetters() {
	k := Keeper{cdc: verifrt.Codec(), storeKey: verifrt.StoreKey(types.StoreKey)}
	ctx := verifrt.NewContext(10, 1700000000, "exocoretestnet_233-1")
	p := types.DefaultParams()
	k.SetParams(ctx, p)
	assetID := p.Tokens[1].AssetID
	agc = nil
	hasRound := verifrt.Bool("has_latest_round")
	which := verifrt.Choice("price_text", len(verifC11PriceStrings))
	text := verifC11PriceStrings[which]
	dec := int32(verifrt.U8("decimal"))
	if hasRound {
		round := verifrt.U64("round_id")
		verifrt.Assume(verifrt.All(round >= 1, round < 1<<32))
		st := k.getPriceTRStore(ctx, 1)
		st.Set(types.PricesRoundKey(round), k.cdc.MustMarshal(&types.PriceTimeRound{Price: text, Decimal: dec, Timestamp: "-", RoundID: round}))
		st.Set(types.PricesNextRoundIDKey, types.Uint64Bytes(round+1))
	}
	// sdkmath.NewIntFromString parses with base detection: "0x10" is the number 16
	numeric := verifrt.Any(which == 1, which == 6)
	want := sdkmath.NewInt(100)
	if which == 6 {
		want = sdkmath.NewInt(16)
	}
	one, err1 := k.GetSpecifiedAssetsPrice(ctx, assetID)
	many, err2 := k.GetMultipleAssetsPrices(ctx, map[string]interface{}{assetID: nil})
	if verifrt.All(hasRound, numeric) {
		verifrt.Assert(verifrt.All(err1 == nil, one.Value.Equal(want), one.Decimal == uint8(dec)), "a stored positive decimal price is returned as it is")
		verifrt.Assert(verifrt.All(err2 == nil, many[assetID].Value.Equal(want)), "a stored positive decimal price is returned as it is (batch getter)")
	} else {
		verifrt.Assert(verifrt.All(err1 != nil, one.Value.Equal(sdkmath.NewInt(types.DefaultPriceValue))), "a missing, empty, non-numeric or non-positive stored price yields the default price and an error, never a panic")
		verifrt.Assert(verifrt.All(err2 != nil, many[assetID].Value.Equal(sdkmath.NewInt(types.DefaultPriceValue))), "a missing, empty, non-numeric or non-positive stored price yields the default price and an error, never a panic (batch getter)")
	}
	_, _ = k.GetSpecifiedAssetsPrice(ctx, "0xunknown_0x1")
	_, _ = k.GetMultipleAssetsPrices(ctx, map[string]interface{}{"0xunknown_0x1": nil})
}
