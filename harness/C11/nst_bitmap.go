//go:build verif

package keeper

import (
	sdkmath "cosmossdk.io/math"
	sdk "github.com/cosmos/cosmos-sdk/types"

	"github.com/ExocoreNetwork/exocore/x/oracle/types"

	"github.com/ExocoreNetwork/exocore/verifrt"
)

type verifC11Deleg struct{}

func (verifC11Deleg) UpdateNSTBalance(sdk.Context, string, string, sdkmath.Int) error { return nil }

type verifC11Assets struct{}

func (verifC11Assets) GetAssetsDecimal(_ sdk.Context, assets map[string]interface{}) (map[string]uint32, error) {
	out := map[string]uint32{}
	for a := range assets {
		out[a] = 18
	}
	return out, nil
}

var verifC11Stakers = []string{"0x1111111111111111111111111111111111111111", "0x2222222222222222222222222222222222222222", "0x3333333333333333333333333333333333333333"}

// VerifC11NSTBitmap: the NST balance-change data of a finalized round was applied successfully
// (inside the price transaction) for a staker list of n stakers. Later the list shrinks (a staker
// withdraws everything), the next round fails to reach consensus and the oracle's EndBlock carries
// the previous "price" forward, applying the same data again - outside any recover. For every
// well-formed change data (arbitrary marker bits and change bytes) that second application must
// not panic.
func VerifC11NSTBitmap() {
	k := Keeper{cdc: verifrt.Codec(), storeKey: verifrt.StoreKey(types.StoreKey), delegationKeeper: verifC11Deleg{}, assetsKeeper: verifC11Assets{}}
	ctx := verifrt.NewContext(10, 1700000000, "exocoretestnet_233-1")
	n := 2 + verifrt.Choice("stakers", 2) // 2 or 3 stakers
	var infos []*types.StakerInfo
	for i := 0; i < n; i++ {
		infos = append(infos, &types.StakerInfo{StakerAddr: verifC11Stakers[i], StakerIndex: int64(i), ValidatorPubkeyList: []string{"0xaa", "0xbb"},
			BalanceList: []*types.BalanceInfo{{RoundID: 1, Block: 5, Balance: 64}}})
	}
	k.SetStakerInfos(ctx, NSTETHASSETID, infos)
	k.SetStakerList(ctx, NSTETHASSETID, &types.StakerList{StakerAddrs: verifC11Stakers[:n]})
	// change data: 32 marker bytes (only the first is non-zero: at most 8 stakers are addressed)
	// followed by extra change bytes
	extra := 1 + verifrt.Choice("change_bytes", 3)
	raw := make([]byte, 32+extra)
	raw[0] = verifrt.U8("marker_byte")
	for i := 0; i < extra; i++ {
		raw[32+i] = verifrt.U8(string(rune('a'+i)) + "_change_byte")
	}
	// first application, inside the price transaction (baseapp recovers a panic there and the
	// price is then not stored): assume it went through
	var err error
	p1 := verifrt.Try(func() { err = k.UpdateNSTByBalanceChange(ctx, NSTETHASSETID, raw, 2) })
	verifrt.Assume(verifrt.All(!p1, err == nil))
	verifrt.Cover("change data applied in the price transaction")
	// the last staker withdraws everything and leaves the list
	k.SetStakerList(ctx, NSTETHASSETID, &types.StakerList{StakerAddrs: verifC11Stakers[:n-1]})
	// EndBlock of a later block: the round failed, the previous data is applied again
	p2 := verifrt.Try(func() { _ = k.UpdateNSTByBalanceChange(ctx.WithBlockHeight(20), NSTETHASSETID, raw, 3) })
	verifrt.Assert(!p2, "carrying the previous NST balance data forward in EndBlock never panics, also after the staker list has shrunk")
}
