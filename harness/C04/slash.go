//go:build verif

package c04

import (
	"fmt"

	sdkmath "cosmossdk.io/math"

	assetstypes "github.com/ExocoreNetwork/exocore/x/assets/types"
	operatorkeeper "github.com/ExocoreNetwork/exocore/x/operator/keeper"
	operatortypes "github.com/ExocoreNetwork/exocore/x/operator/types"
	oracletypes "github.com/ExocoreNetwork/exocore/x/oracle/types"

	"github.com/ExocoreNetwork/exocore/verifenv"
	"github.com/ExocoreNetwork/exocore/verifrt"
)

func nm(f string, a ...interface{}) string { return fmt.Sprintf(f, a...) }

// VerifC04Slash: operator keeper Slash for operator 0 from a symbolic state: pools of operator 0
// (and a bystander pool of operator 1) over two assets, up to n pending undelegation records of
// operator 0 with symbolic start heights, symbolic prices, infraction-time power and slash factor.
func VerifC04Slash() {
	bits := verifrt.Param("amount_bits", 64)
	nrec := verifrt.Param("records", 1)
	twoPools := verifrt.Param("two_pools", 1) == 1
	withBystander := verifrt.Param("bystander", 1) == 1
	withReplay := verifrt.Param("replay", 1) == 1
	f := verifenv.NewFull(100)
	assets := verifenv.AssetIDs()
	var dec [2]uint32
	var prices [2]oracletypes.Price
	for a := 0; a < 2; a++ {
		dec[a] = 0
		if verifrt.Param("vary_decimals", 0) == 1 {
			dec[a] = []uint32{0, 18}[verifrt.Choice(nm("asset%d_decimals", a), 2)]
		}
		f.Env.Ctx = f.Ctx
		f.Env.RegisterAsset(verifenv.AssetHex()[a], dec[a], sdkmath.ZeroInt())
		pd := uint8(0)
		if verifrt.Param("vary_decimals", 0) == 1 {
			pd = []uint8{0, 8}[verifrt.Choice(nm("asset%d_price_decimals", a), 2)]
		}
		prices[a] = f.SetPrice(nm("asset%d", a), assets[a], bits, pd)
	}
	f.RegisterAVS(verifenv.AVSAddr, assets, 0, verifenv.EpochDay)
	f.RegisterOperator(0)
	f.RegisterOperator(1)
	var pools [2]assetstypes.OperatorAssetInfo
	var has [2]bool
	for a := 0; a < 2; a++ {
		if a == 1 && !twoPools {
			continue
		}
		pools[a], has[a] = f.SymPool(nm("op0_asset%d", a), 0, assets[a], bits)
	}
	var by assetstypes.OperatorAssetInfo
	byHas := false
	if withBystander {
		by, byHas = f.SymPool("bystander", 1, assets[0], bits)
	}

	// pending undelegations of operator 0 on asset 0 (aggregates kept consistent by AddRecord)
	l := verifenv.NewPlainLedger(f.Env, 1, 2, assets[0], bits)
	recs := make([]*verifenv.Rec, 0, nrec)
	for i := 0; i < nrec; i++ {
		r := l.AddRecord(nm("rec%d", i), 0, 0, 8, 4)
		for _, p := range recs {
			verifrt.Assume(string(p.Key) != string(r.Key))
		}
		recs = append(recs, r)
	}
	// re-read pool 0 (AddRecord bumped its pending figure)
	if cur, err := f.Assets.GetOperatorSpecifiedAssetInfo(f.Ctx, verifenv.OperatorAddr(0), assets[0]); err == nil {
		pools[0], has[0] = *cur, true
	}

	power := verifrt.I64("power")
	factor := verifrt.Dec("slash_factor")
	event := verifrt.I64("infraction_height")
	verifrt.Assume(verifrt.All(power > 0, power < (int64(1)<<50), !factor.IsNegative(), factor.LTE(sdkmath.LegacyOneDec()), event >= 1, event < 100))
	param := &operatortypes.SlashInputInfo{
		IsDogFood: true, Power: power, SlashType: 1, Operator: verifenv.OperatorAddr(0), AVSAddr: verifenv.AVSAddr,
		SlashContract: verifenv.AVSAddr, SlashID: "0x1_0x5", SlashEventHeight: event, SlashProportion: factor,
	}
	// operator value over all its pools including unbonding stake
	value := sdkmath.LegacyZeroDec()
	for a := 0; a < 2; a++ {
		if has[a] {
			value = value.Add(operatorkeeper.CalculateUSDValue(pools[a].TotalAmount.Add(pools[a].PendingUndelegationAmount), prices[a].Value, dec[a], prices[a].Decimal))
		}
	}
	// F6: a slash against an operator whose value has shrunk to zero divides by zero
	if value.IsZero() {
		panicked := verifrt.Try(func() { _ = f.Operator.Slash(f.Ctx, param) })
		verifrt.Assert(!panicked, "F6: slashing an operator whose current value is zero does not panic")
		return
	}
	err := f.Operator.Slash(f.Ctx, param)
	verifrt.Assert(err == nil, "a valid slash executes")
	if err != nil {
		return
	}
	p := sdkmath.LegacyNewDec(power).Mul(factor).Quo(value)
	p = verifrt.IteDec(p.GT(sdkmath.LegacyOneDec()), sdkmath.LegacyOneDec(), p)
	info, ierr := f.Operator.GetOperatorSlashInfo(f.Ctx, verifenv.AVSAddr, verifenv.OperatorBech[0], "0x1_0x5")
	verifrt.Assert(ierr == nil, "slash execution recorded")
	if ierr != nil {
		return
	}
	verifrt.Assert(info.ExecutionInfo.SlashProportion.Equal(p), "proportion = min(1, power x factor / current value incl. unbonding)")
	verifrt.Assert(verifrt.All(!p.IsNegative(), p.LTE(sdkmath.LegacyOneDec())), "0 <= p <= 100%")

	// pools
	nPoolExec := 0
	for a := 0; a < 2; a++ {
		cur, cerr := f.Assets.GetOperatorSpecifiedAssetInfo(f.Ctx, verifenv.OperatorAddr(0), assets[a])
		if !has[a] {
			verifrt.Assert(cerr != nil, "no pool is created by a slash")
			continue
		}
		nPoolExec++
		verifrt.Assert(cerr == nil, "pool still present")
		if cerr != nil {
			continue
		}
		cut := p.MulInt(pools[a].TotalAmount).TruncateInt()
		verifrt.Assert(cur.TotalAmount.Equal(pools[a].TotalAmount.Sub(cut)), "each pool loses floor(p x amount)")
		verifrt.Assert(cur.PendingUndelegationAmount.Equal(pools[a].PendingUndelegationAmount), "pool pending figure untouched")
		verifrt.Assert(verifrt.All(cur.TotalShare.LTE(pools[a].TotalShare), cur.OperatorShare.LTE(pools[a].OperatorShare)), "no share figure increases")
		verifrt.Assert(cur.TotalAmount.IsZero() == cur.TotalShare.IsZero() || !pools[a].TotalAmount.Sub(cut).IsZero(), "a pool slashed to zero has its shares cleared")
	}
	verifrt.Assert(len(info.ExecutionInfo.SlashAssetsPool) == nPoolExec, "one pool execution entry per pool")
	// undelegations
	nRecExec := 0
	for _, r := range recs {
		cur, live := f.Env.RecordLive(r.Key)
		verifrt.Assert(live, "slashing never deletes a pending record")
		if !live {
			continue
		}
		verifrt.Assert(cur.Amount.Equal(r.Record.Amount), "the original amount of a record never changes")
		if r.Record.BlockNumber < uint64(event) {
			verifrt.Assert(cur.ActualCompletedAmount.Equal(r.Record.ActualCompletedAmount), "undelegations started before the infraction are untouched")
			continue
		}
		cut := p.MulInt(r.Record.Amount).TruncateInt()
		cut = verifrt.Ite(cut.GT(r.Record.ActualCompletedAmount), r.Record.ActualCompletedAmount, cut)
		verifrt.Assert(cur.ActualCompletedAmount.Equal(r.Record.ActualCompletedAmount.Sub(cut)), "undelegations started at/after the infraction lose min(floor(p x original), left)")
		if !r.Record.ActualCompletedAmount.IsZero() {
			nRecExec++
		}
	}
	verifrt.Assert(len(info.ExecutionInfo.SlashUndelegations) == nRecExec, "one execution entry per slashed undelegation")
	// frame: bystander operator untouched
	if byHas {
		cur, cerr := f.Assets.GetOperatorSpecifiedAssetInfo(f.Ctx, verifenv.OperatorAddr(1), assets[0])
		verifrt.Assert(cerr == nil && cur.TotalAmount.Equal(by.TotalAmount) && cur.TotalShare.Equal(by.TotalShare) && cur.PendingUndelegationAmount.Equal(by.PendingUndelegationAmount), "other operators' pools are untouched")
	}
	if !withReplay {
		return
	}
	// replay of the same slash identifier has no further effect
	snap0, _ := f.Assets.GetOperatorSpecifiedAssetInfo(f.Ctx, verifenv.OperatorAddr(0), assets[0])
	err2 := f.Operator.Slash(f.Ctx, param)
	verifrt.Assert(err2 != nil, "a repeated slash identifier is rejected")
	snap1, _ := f.Assets.GetOperatorSpecifiedAssetInfo(f.Ctx, verifenv.OperatorAddr(0), assets[0])
	if snap0 != nil && snap1 != nil {
		verifrt.Assert(snap1.TotalAmount.Equal(snap0.TotalAmount), "F11: presenting the same slash identifier again has no further effect")
	}
}
