//go:build verif

package keeper

import (
	sdkmath "cosmossdk.io/math"

	delegationtype "github.com/ExocoreNetwork/exocore/x/delegation/types"
	"github.com/ExocoreNetwork/exocore/verifrt"
)

// VerifC04SlashFromUndelegation: the per-record slash kernel over its whole domain.
// cut = min(floor(p*Amount), left), measured on the ORIGINAL amount, never more than what is left,
// the recorded execution equals the actual reduction.
func VerifC04SlashFromUndelegation() {
	max := sdkmath.NewIntFromBigInt(verifPow2(verifrt.Param("amount_bits", 255)))
	amount := verifrt.Int("amount")
	left := verifrt.Int("left")
	p := verifrt.Dec("p")
	verifrt.Assume(verifrt.All(amount.IsPositive(), amount.LTE(max), !left.IsNegative(), left.LTE(amount)))
	verifrt.Assume(verifrt.All(!p.IsNegative(), p.LTE(sdkmath.LegacyOneDec())))
	rec := &delegationtype.UndelegationRecord{StakerID: "s", AssetID: "a", Amount: amount, ActualCompletedAmount: left}
	out := SlashFromUndelegation(rec, p)
	after := rec.ActualCompletedAmount
	verifrt.Assert(verifrt.All(!after.IsNegative(), after.LTE(left)), "what is left never increases and never goes negative")
	verifrt.Assert(rec.Amount.Equal(amount), "the original amount of the record is not modified")
	cut := left.Sub(after)
	// reference: floor(p*amount) in 18-decimal fixed point
	ref := p.MulInt(amount).TruncateInt()
	if ref.GT(left) {
		ref = left
	}
	verifrt.Assert(cut.Equal(ref), "cut equals min(floor(p*original amount), what is left)")
	if out == nil {
		verifrt.Assert(cut.IsZero(), "no execution record only when nothing was cut")
	} else {
		verifrt.Assert(out.Amount.Equal(cut), "recorded execution equals the actual reduction")
		verifrt.Assert(verifrt.All(out.StakerID == "s", out.AssetID == "a"), "recorded execution names the record's staker and asset")
	}
}
