//go:build verif

package keeper

import "math/big"

func verifPow2(n int) *big.Int { return new(big.Int).Lsh(big.NewInt(1), uint(n)) }
