//go:build verif

package c17

import (
	sdkmath "cosmossdk.io/math"

	assetstypes "github.com/ExocoreNetwork/exocore/x/assets/types"
	delegationtypes "github.com/ExocoreNetwork/exocore/x/delegation/types"
)

func poolInfo(T sdkmath.Int, S sdkmath.LegacyDec) assetstypes.OperatorAssetInfo {
	return assetstypes.OperatorAssetInfo{TotalAmount: T, PendingUndelegationAmount: sdkmath.ZeroInt(), TotalShare: S, OperatorShare: sdkmath.LegacyZeroDec()}
}

func delegAmounts(sh sdkmath.LegacyDec) delegationtypes.DelegationAmounts {
	return delegationtypes.DelegationAmounts{UndelegatableShare: sh, WaitUndelegationAmount: sdkmath.ZeroInt()}
}
