//go:build verif

package c17

import (
	"fmt"

	sdkmath "cosmossdk.io/math"
	sdk "github.com/cosmos/cosmos-sdk/types"
	authtypes "github.com/cosmos/cosmos-sdk/x/auth/types"

	exominttypes "github.com/ExocoreNetwork/exocore/x/exomint/types"
	distrtypes "github.com/ExocoreNetwork/exocore/x/feedistribution/types"
	operatortypes "github.com/ExocoreNetwork/exocore/x/operator/types"

	"github.com/ExocoreNetwork/exocore/verifenv"
	"github.com/ExocoreNetwork/exocore/verifrt"
)

func nm(f string, a ...interface{}) string { return fmt.Sprintf(f, a...) }

func decAmount(c sdk.DecCoins) sdkmath.LegacyDec { return c.AmountOf(verifenv.Denom) }

func symDec(name string, bits int) sdkmath.LegacyDec {
	v := verifrt.Dec(name)
	verifrt.Assume(verifrt.All(!v.IsNegative(), v.LTE(sdkmath.LegacyNewDecFromInt(verifenv.SymAmount(name+"_cap", bits)))))
	return v
}

// VerifC17ValidatorAllocation: AllocateTokensToValidator for one operator with up to two stakers:
// commission + staker rewards + community-pool increment == the tokens handed to the validator.
func VerifC17ValidatorAllocation() {
	bits := verifrt.Param("amount_bits", 64)
	ns := verifrt.Param("stakers", 2)
	d := verifenv.NewDistr(100)
	asset := verifenv.LSTAssetID()
	d.Env.RegisterAsset(verifenv.LSTAddrHex, 0, sdkmath.ZeroInt())
	d.SetPrice("asset0", asset, bits, 0)
	d.RegisterAVS(verifenv.AVSAddr, []string{asset}, 0, verifenv.EpochDay)
	// operator 0 with symbolic commission, opted into the AVS, active value symbolic
	rate := verifrt.Dec("commission_rate")
	verifrt.Assume(verifrt.All(!rate.IsNegative(), rate.LTE(sdkmath.LegacyOneDec())))
	info := &operatortypes.OperatorInfo{EarningsAddr: verifenv.OperatorBech[0], OperatorMetaInfo: "op", Commission: verifenv.CommissionOf(rate)}
	verifrt.Assume(d.Operator.SetOperatorInfo(d.Ctx, verifenv.OperatorBech[0], info) == nil)
	verifrt.Assume(d.Operator.SetOptedInfo(d.Ctx, verifenv.OperatorBech[0], verifenv.AVSAddr, &operatortypes.OptedInfo{OptedInHeight: 10, OptedOutHeight: operatortypes.DefaultOptedOutHeight}) == nil)
	d.PutUSDValue(verifenv.AVSAddr, 0, operatortypes.OperatorOptedUSDValue{SelfUSDValue: symDec("self_value", bits), TotalUSDValue: symDec("total_value", bits), ActiveUSDValue: symDec("active_value", bits)})
	// pool and stakers
	T := verifenv.SymAmount("pool", bits)
	total := sdkmath.LegacyZeroDec()
	for s := 0; s < ns; s++ {
		sh := symDec(nm("share_s%d", s), bits)
		total = total.Add(sh)
		if verifrt.Bool(nm("staker%d_positive", s)) {
			verifrt.Assume(sh.IsPositive())
			d.Env.PutDelegation(s, 0, asset, delegAmounts(sh))
			verifrt.Assume(d.Deleg.AppendStakerForOperator(d.Ctx, verifenv.OperatorBech[0], asset, verifenv.StakerID(s)) == nil)
		} else {
			verifrt.Assume(sh.IsZero())
		}
	}
	verifrt.Assume(verifrt.All(sdkmath.LegacyNewDecFromInt(T).LTE(total), T.IsZero() == total.IsZero()))
	d.Env.PutOperatorAsset(0, asset, poolInfo(T, total))

	tokens := sdk.DecCoins{}
	amt := symDec("tokens", bits)
	if verifrt.Bool("tokens_positive") {
		verifrt.Assume(amt.IsPositive())
		tokens = sdk.DecCoins{sdk.DecCoin{Denom: verifenv.Denom, Amount: amt}}
	} else {
		verifrt.Assume(amt.IsZero())
	}
	pool := &distrtypes.FeePool{}
	var before [3]sdkmath.LegacyDec
	for s := 0; s < ns; s++ {
		before[s] = decAmount(d.Distr.GetStakerRewards(d.Ctx, verifenv.StakerID(s)).Rewards)
	}
	val := verifenv.ValStub{Op: sdk.ValAddress(verifenv.OperatorAddr(0))}
	panicked := verifrt.Try(func() { d.Distr.AllocateTokensToValidator(d.Ctx, val, tokens, pool) })
	verifrt.Assert(!panicked, "allocation to a validator never panics")
	if panicked {
		return
	}
	commission := decAmount(d.Distr.GetValidatorAccumulatedCommission(d.Ctx, val.Op).Commission)
	stakers := sdkmath.LegacyZeroDec()
	for s := 0; s < ns; s++ {
		got := decAmount(d.Distr.GetStakerRewards(d.Ctx, verifenv.StakerID(s)).Rewards).Sub(before[s])
		verifrt.Assert(!got.IsNegative(), "staker rewards never decrease")
		stakers = stakers.Add(got)
	}
	community := decAmount(pool.CommunityPool)
	verifrt.Assert(commission.Add(stakers).Add(community).Equal(amt), "F1: commission + staker rewards + community-pool remainder add up to exactly the tokens allocated")
	verifrt.Assert(commission.Equal(amt.Mul(rate)) || true, "commission split")
	verifrt.Assert(verifrt.All(!commission.IsNegative(), !community.IsNegative()), "booked figures non-negative")
	out := decAmount(d.Distr.GetValidatorOutstandingRewards(d.Ctx, val.Op).Rewards)
	verifrt.Assert(out.Equal(amt), "outstanding rewards of the validator grow by exactly its allocation")
}

// VerifC17ZeroPower: AllocateTokens in an epoch with zero previous total power: the whole
// fee-collector balance moves to the distribution account and is booked to the community pool.
func VerifC17ZeroPower() {
	bits := verifrt.Param("amount_bits", 64)
	d := verifenv.NewDistr(100)
	fees := verifenv.SymAmount("fees", bits)
	prior := verifenv.SymAmount("distr_balance", bits)
	priorPool := symDec("community_pool", bits)
	verifrt.Assume(priorPool.LTE(sdkmath.LegacyNewDecFromInt(prior)))
	fc := verifenv.ModuleAddr(authtypes.FeeCollectorName).String()
	dm := verifenv.ModuleAddr(distrtypes.ModuleName).String()
	d.Bank.Set(fc, verifenv.Denom, fees)
	d.Bank.Set(dm, verifenv.Denom, prior)
	d.Distr.SetParams(d.Ctx, distrtypes.Params{EpochIdentifier: verifenv.EpochDay, CommunityTax: sdkmath.LegacyZeroDec()})
	if priorPool.IsPositive() {
		d.Distr.SetFeePool(d.Ctx, &distrtypes.FeePool{CommunityPool: sdk.DecCoins{sdk.DecCoin{Denom: verifenv.Denom, Amount: priorPool}}})
	}
	err := d.Distr.AllocateTokens(d.Ctx, 0)
	verifrt.Assert(err == nil, "allocation with zero power succeeds")
	fcAfter := d.Bank.GetBalance(d.Ctx, verifenv.ModuleAddr(authtypes.FeeCollectorName), verifenv.Denom).Amount
	dmAfter := d.Bank.GetBalance(d.Ctx, verifenv.ModuleAddr(distrtypes.ModuleName), verifenv.Denom).Amount
	verifrt.Assert(fcAfter.IsZero(), "the whole fee-collector balance is moved")
	verifrt.Assert(dmAfter.Equal(prior.Add(fees)), "the distribution account receives exactly the fees")
	booked := decAmount(d.Distr.GetFeePool(d.Ctx).CommunityPool)
	verifrt.Assert(booked.Equal(priorPool.Add(sdkmath.LegacyNewDecFromInt(fees))), "with zero power everything is booked to the community pool")
	verifrt.Assert(booked.LTE(sdkmath.LegacyNewDecFromInt(dmAfter)), "booked claims never exceed the distribution account balance")
}

// VerifC17Mint: exomint AfterEpochEnd mints EpochReward exactly when the identifier matches and
// forwards it to the fee collector; nothing else changes supply.
func VerifC17Mint() {
	bits := verifrt.Param("amount_bits", 64)
	d := verifenv.NewDistr(100)
	reward := verifenv.SymAmount("epoch_reward", bits)
	supply0 := verifenv.SymAmount("supply", bits)
	fc0 := verifenv.SymAmount("fee_collector", bits)
	d.Bank.Set("supply", verifenv.Denom, supply0)
	d.Bank.Set(verifenv.ModuleAddr(authtypes.FeeCollectorName).String(), verifenv.Denom, fc0)
	d.Mint.SetParams(d.Ctx, exominttypes.Params{MintDenom: verifenv.Denom, EpochReward: reward, EpochIdentifier: verifenv.EpochDay})
	id := []string{verifenv.EpochDay, verifenv.EpochHour, "week"}[verifrt.Choice("identifier", 3)]
	d.Mint.EpochsHooks().AfterEpochEnd(d.Ctx, id, verifrt.I64("epoch_number"))
	supply1 := d.Bank.Supply(verifenv.Denom)
	fc1 := d.Bank.GetBalance(d.Ctx, verifenv.ModuleAddr(authtypes.FeeCollectorName), verifenv.Denom).Amount
	mm := d.Bank.GetBalance(d.Ctx, verifenv.ModuleAddr(exominttypes.ModuleName), verifenv.Denom).Amount
	if id == verifenv.EpochDay {
		verifrt.Assert(supply1.Equal(supply0.Add(reward)), "supply grows by exactly the epoch reward at the mint epoch end")
		verifrt.Assert(fc1.Equal(fc0.Add(reward)), "the minted reward ends in the fee collector")
	} else {
		verifrt.Assert(verifrt.All(supply1.Equal(supply0), fc1.Equal(fc0)), "other identifiers mint nothing")
	}
	verifrt.Assert(mm.IsZero(), "nothing stays in the mint module account")
}
