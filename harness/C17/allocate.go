//go:build verif

package c17

import (
	sdkmath "cosmossdk.io/math"
	"github.com/cosmos/cosmos-sdk/store/prefix"
	sdk "github.com/cosmos/cosmos-sdk/types"
	authtypes "github.com/cosmos/cosmos-sdk/x/auth/types"

	avstypes "github.com/ExocoreNetwork/exocore/x/avs/types"
	dogfoodtypes "github.com/ExocoreNetwork/exocore/x/dogfood/types"
	epochstypes "github.com/ExocoreNetwork/exocore/x/epochs/types"
	distrtypes "github.com/ExocoreNetwork/exocore/x/feedistribution/types"
	operatorkeeper "github.com/ExocoreNetwork/exocore/x/operator/keeper"
	operatortypes "github.com/ExocoreNetwork/exocore/x/operator/types"
	oracletypes "github.com/ExocoreNetwork/exocore/x/oracle/types"

	"github.com/ExocoreNetwork/exocore/verifenv"
	"github.com/ExocoreNetwork/exocore/verifrt"
)

var allocKeyB64 = []string{
	"MTExMTExMTExMTExMTExMTExMTExMTExMTExMTExMTE=",
	"MjIyMjIyMjIyMjIyMjIyMjIyMjIyMjIyMjIyMjIyMjI=",
}

// VerifC17AllocateTokens: the distribution-epoch allocation over a validator set of two operators
// (built through the real opt-in and dogfood EndBlock) with symbolic powers, a symbolic
// fee-collector balance and a symbolic community tax: the whole balance moves to the distribution
// account and community pool + commissions + staker rewards grow by exactly that amount; the
// booked claims never exceed the distribution account's balance.
func VerifC17AllocateTokens() {
	bits := verifrt.Param("amount_bits", 40)
	d := verifenv.NewDistr(100)
	chain := avstypes.ChainIDWithoutRevision(d.Ctx.ChainID())
	st := prefix.NewStore(d.Ctx.KVStore(verifrt.StoreKey(epochstypes.StoreKey)), epochstypes.KeyPrefixEpoch)
	ep := epochstypes.EpochInfo{Identifier: verifenv.EpochDay, Duration: 3600000000000, CurrentEpoch: 5, EpochCountingStarted: true}
	st.Set([]byte(verifenv.EpochDay), d.Env.Cdc.MustMarshal(&ep))
	d.Dogfood.SetParams(d.Ctx, dogfoodtypes.Params{EpochsUntilUnbonded: 1, EpochIdentifier: verifenv.EpochDay, MaxValidators: 3, HistoricalEntries: 0, MinSelfDelegation: sdkmath.ZeroInt()})
	d.Env.RegisterAsset(verifenv.LSTAddrHex, 6, sdkmath.NewInt(1000))
	d.Oracle.Prices[verifenv.LSTAssetID()] = oracletypes.Price{Value: sdkmath.NewInt(1), Decimal: 0}
	_, err := d.AVS.RegisterAVSWithChainID(d.Ctx, &avstypes.AVSRegisterOrDeregisterParams{AvsName: "dogfood", AssetID: []string{verifenv.LSTAssetID()},
		UnbondingPeriod: 1, EpochIdentifier: verifenv.EpochDay, ChainID: d.Ctx.ChainID(), AvsOwnerAddress: []string{verifenv.Authority}})
	verifrt.Assume(err == nil)
	avs := avstypes.GenerateAVSAddr(chain)
	ms := operatorkeeper.NewMsgServerImpl(*d.Operator)
	for o := 0; o < 2; o++ {
		// commission rates, powers and the tax are drawn from small sets (the fee amount is the
		// symbolic quantity: with all of them symbolic the products are beyond the solver)
		rate := []sdkmath.LegacyDec{sdkmath.LegacyZeroDec(), sdkmath.LegacyNewDecWithPrec(1, 1), sdkmath.LegacyOneDec()}[verifrt.Choice(nm("operator%d_commission", o), 3)]
		info := &operatortypes.OperatorInfo{EarningsAddr: verifenv.OperatorBech[o], OperatorMetaInfo: "op", Commission: verifenv.CommissionOf(rate)}
		verifrt.Assume(d.Operator.SetOperatorInfo(d.Ctx, verifenv.OperatorBech[o], info) == nil)
		_, err := ms.OptIntoAVS(sdk.WrapSDKContext(d.Ctx), &operatortypes.OptIntoAVSReq{FromAddress: verifenv.OperatorBech[o], AvsAddress: avs,
			PublicKeyJSON: `{"@type":"/cosmos.crypto.ed25519.PubKey","key":"` + allocKeyB64[o] + `"}`})
		verifrt.Assume(err == nil)
		pw := int64(1 + verifrt.Choice(nm("operator%d_power", o), 3))
		v := sdkmath.LegacyNewDec(pw)
		d.PutUSDValue(avs, o, operatortypes.OperatorOptedUSDValue{SelfUSDValue: v, TotalUSDValue: v, ActiveUSDValue: v})
	}
	d.Dogfood.MarkEpochEnd(d.Ctx)
	d.Dogfood.EndBlock(d.Ctx)
	total := d.Dogfood.GetLastTotalPower(d.Ctx)
	verifrt.Assume(verifrt.All(len(d.Dogfood.GetAllExocoreValidators(d.Ctx)) == 2, total.IsPositive()))

	fees := verifenv.SymAmount("fees", bits)
	tax := []sdkmath.LegacyDec{sdkmath.LegacyZeroDec(), sdkmath.LegacyNewDecWithPrec(2, 2), sdkmath.LegacyNewDecWithPrec(333333333333333333, 18), sdkmath.LegacyOneDec()}[verifrt.Choice("community_tax", 4)]
	d.Distr.SetParams(d.Ctx, distrtypes.Params{EpochIdentifier: verifenv.EpochDay, CommunityTax: tax})
	fc := verifenv.ModuleAddr(authtypes.FeeCollectorName).String()
	d.Bank.Set(fc, verifenv.Denom, fees)
	d.Bank.Set(verifenv.ModuleAddr(distrtypes.ModuleName).String(), verifenv.Denom, sdkmath.ZeroInt())

	aerr := d.Distr.AllocateTokens(d.Ctx, total.Int64())
	verifrt.Assert(aerr == nil, "the allocation succeeds")
	fcAfter := d.Bank.GetBalance(d.Ctx, verifenv.ModuleAddr(authtypes.FeeCollectorName), verifenv.Denom).Amount
	dmAfter := d.Bank.GetBalance(d.Ctx, verifenv.ModuleAddr(distrtypes.ModuleName), verifenv.Denom).Amount
	verifrt.Assert(verifrt.All(fcAfter.IsZero(), dmAfter.Equal(fees)), "the whole fee-collector balance moves to the distribution account")
	booked := decAmount(d.Distr.GetFeePool(d.Ctx).CommunityPool)
	outstanding := sdkmath.LegacyZeroDec()
	for o := 0; o < 2; o++ {
		val := sdk.ValAddress(verifenv.OperatorAddr(o))
		booked = booked.Add(decAmount(d.Distr.GetValidatorAccumulatedCommission(d.Ctx, val).Commission))
		outstanding = outstanding.Add(decAmount(d.Distr.GetValidatorOutstandingRewards(d.Ctx, val).Rewards))
	}
	verifrt.Assert(booked.Equal(sdkmath.LegacyNewDecFromInt(fees)), "community pool + commissions (+ staker rewards) grow by exactly the amount moved")
	verifrt.Assert(outstanding.LTE(sdkmath.LegacyNewDecFromInt(fees)), "validators' outstanding rewards never exceed the amount moved")
}
