//go:build verif

package c17

import (
	sdkmath "cosmossdk.io/math"
	sdk "github.com/cosmos/cosmos-sdk/types"

	distrtypes "github.com/ExocoreNetwork/exocore/x/feedistribution/types"
	operatortypes "github.com/ExocoreNetwork/exocore/x/operator/types"
	oracletypes "github.com/ExocoreNetwork/exocore/x/oracle/types"

	"github.com/ExocoreNetwork/exocore/verifenv"
	"github.com/ExocoreNetwork/exocore/verifrt"
)

// VerifC17TwoAVS: one operator opted into two AVSs with different asset lists (AVS1: asset A,
// AVS2: assets A and B) and one staker who delegated both assets to it. The staker is found once
// per (AVS, asset) list; whatever the amounts, the allocation to the validator must not panic
// (it runs in BeginBlock) and commission + staker rewards + community pool must add up to the
// allocation.
func VerifC17TwoAVS() {
	bits := verifrt.Param("amount_bits", 32)
	d := verifenv.NewDistr(100)
	d.Env.RegisterAsset(verifenv.LSTAddrHex, 0, sdkmath.ZeroInt())
	d.Env.RegisterAsset(verifenv.LST2Hex, 0, sdkmath.ZeroInt())
	ids := verifenv.AssetIDs()
	for _, id := range ids {
		d.Oracle.Prices[id] = oracletypes.Price{Value: sdkmath.NewInt(1), Decimal: 0}
	}
	d.RegisterAVS(verifenv.AVSAddr, []string{ids[0]}, 0, verifenv.EpochDay)
	d.RegisterAVS(verifenv.AVSAddr2, []string{ids[0], ids[1]}, 0, verifenv.EpochDay)
	info := &operatortypes.OperatorInfo{EarningsAddr: verifenv.OperatorBech[0], OperatorMetaInfo: "op", Commission: verifenv.CommissionOf(sdkmath.LegacyNewDecWithPrec(1, 1))}
	verifrt.Assume(d.Operator.SetOperatorInfo(d.Ctx, verifenv.OperatorBech[0], info) == nil)
	for _, avs := range []string{verifenv.AVSAddr, verifenv.AVSAddr2} {
		verifrt.Assume(d.Operator.SetOptedInfo(d.Ctx, verifenv.OperatorBech[0], avs, &operatortypes.OptedInfo{OptedInHeight: 10, OptedOutHeight: operatortypes.DefaultOptedOutHeight}) == nil)
		d.PutUSDValue(avs, 0, operatortypes.OperatorOptedUSDValue{SelfUSDValue: sdkmath.LegacyZeroDec(), TotalUSDValue: sdkmath.LegacyNewDec(5), ActiveUSDValue: sdkmath.LegacyNewDec(5)})
	}
	// the staker holds the whole pool of each asset at a 1:1 rate
	for a, id := range ids {
		// small concrete amounts (the arithmetic of the split is what is symbolic here, through
		// the allocated tokens); asset B's amount decides whether the two AVSs value the staker differently
		amt := sdkmath.NewInt(int64(1 + 2*verifrt.Choice(nm("delegated_asset%d_kind", a), 2)))
		d.Env.PutOperatorAsset(0, id, poolInfo(amt, sdkmath.LegacyNewDecFromInt(amt)))
		d.Env.PutDelegation(0, 0, id, delegAmounts(sdkmath.LegacyNewDecFromInt(amt)))
		verifrt.Assume(d.Deleg.AppendStakerForOperator(d.Ctx, verifenv.OperatorBech[0], id, verifenv.StakerID(0)) == nil)
	}
	amt := sdkmath.LegacyNewDecFromInt(verifenv.SymAmount("tokens", bits))
	verifrt.Assume(amt.IsPositive())
	tokens := sdk.DecCoins{sdk.DecCoin{Denom: verifenv.Denom, Amount: amt}}
	pool := &distrtypes.FeePool{}
	val := verifenv.ValStub{Op: sdk.ValAddress(verifenv.OperatorAddr(0))}
	panicked := verifrt.Try(func() { d.Distr.AllocateTokensToValidator(d.Ctx, val, tokens, pool) })
	verifrt.Assert(!panicked, "allocation to a validator whose staker is listed under several AVSs and assets never panics")
	if panicked {
		return
	}
	commission := decAmount(d.Distr.GetValidatorAccumulatedCommission(d.Ctx, val.Op).Commission)
	staker := decAmount(d.Distr.GetStakerRewards(d.Ctx, verifenv.StakerID(0)).Rewards)
	community := decAmount(pool.CommunityPool)
	verifrt.Assert(commission.Add(staker).Add(community).Equal(amt), "commission + staker rewards + community-pool remainder add up to exactly the tokens allocated (staker listed several times)")
	verifrt.Assert(verifrt.All(!staker.IsNegative(), !community.IsNegative(), staker.LTE(amt)), "a staker never receives more than the allocation, nothing is negative")
}
