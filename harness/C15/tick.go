//go:build verif

package c15

import (
	"fmt"
	"time"

	"github.com/cosmos/cosmos-sdk/store/prefix"
	sdk "github.com/cosmos/cosmos-sdk/types"

	epochskeeper "github.com/ExocoreNetwork/exocore/x/epochs/keeper"
	epochstypes "github.com/ExocoreNetwork/exocore/x/epochs/types"

	"github.com/ExocoreNetwork/exocore/verifrt"
)

type call struct {
	end    bool
	id     string
	number int64
}

type recorder struct{ calls []call }

func (r *recorder) AfterEpochEnd(_ sdk.Context, id string, n int64) {
	r.calls = append(r.calls, call{true, id, n})
}
func (r *recorder) BeforeEpochStart(_ sdk.Context, id string, n int64) {
	r.calls = append(r.calls, call{false, id, n})
}

const horizon = int64(1) << 61 // nanoseconds: times and durations stay far from int64 overflow

func symTime(name string) time.Time {
	ns := verifrt.I64(name)
	verifrt.Assume(verifrt.All(ns > -horizon, ns < horizon))
	return time.Unix(0, ns).UTC()
}

func symInfo(id string, tag string) epochstypes.EpochInfo {
	dur := verifrt.I64(tag + "_duration")
	cur := verifrt.I64(tag + "_current_epoch")
	hgt := verifrt.I64(tag + "_start_height")
	verifrt.Assume(verifrt.All(dur > 0, dur < horizon, cur >= 0, cur < (int64(1)<<40), hgt >= 0))
	info := epochstypes.EpochInfo{
		Identifier: id, StartTime: symTime(tag + "_start_time"), Duration: time.Duration(dur), CurrentEpoch: cur,
		CurrentEpochStartTime: symTime(tag + "_cur_start_time"), EpochCountingStarted: verifrt.Bool(tag + "_started"),
		CurrentEpochStartHeight: hgt,
	}
	return info
}

// The closed form "n-th epoch starts at start + (n-1)*duration" follows by induction from the two
// step facts asserted below: the first tick sets (number, start) = (1, StartTime) and every later
// tick adds exactly (1, Duration). The product itself is never formed (symbolic 64-bit
// multiplication is outside what the solver decides in useful time).

func put(ctx sdk.Context, info epochstypes.EpochInfo) {
	st := prefix.NewStore(ctx.KVStore(verifrt.StoreKey(epochstypes.StoreKey)), epochstypes.KeyPrefixEpoch)
	st.Set([]byte(info.Identifier), verifrt.Codec().MustMarshal(&info))
}

// VerifC15Tick: one BeginBlocker from an arbitrary valid state of n identifiers at an arbitrary
// block time: each identifier ticks iff its own condition holds, by exactly one, with
// end(n) then start(n+1) delivered once, and the start-time law is preserved.
func VerifC15Tick() {
	n := verifrt.Param("identifiers", 2)
	ids := []string{"day", "hour", "week"}[:n]
	key := verifrt.StoreKey(epochstypes.StoreKey)
	bt := symTime("block_time")
	height := verifrt.I64("height")
	verifrt.Assume(height >= 1)
	ctx := verifrt.NewContextAt(height, bt, "exocoretestnet_233-1")
	k := epochskeeper.NewKeeper(verifrt.Codec(), key)
	rec := &recorder{}
	k.SetHooks(epochstypes.NewMultiEpochHooks(rec))
	pre := make([]epochstypes.EpochInfo, n)
	for i, id := range ids {
		pre[i] = symInfo(id, fmt.Sprintf("e%d", i))
		put(ctx, pre[i])
	}
	k.BeginBlocker(ctx)
	// expected hook trace, identifiers in store (lexicographic) order: day < hour < week
	var want []call
	for i, id := range ids {
		p := pre[i]
		post, found := k.GetEpochInfo(ctx, id)
		verifrt.Assert(found, "epoch info still present")
		ticks := !bt.Before(p.StartTime) && (!p.EpochCountingStarted || bt.After(p.CurrentEpochStartTime.Add(p.Duration)))
		if !ticks {
			verifrt.Assert(verifrt.All(post.CurrentEpoch == p.CurrentEpoch, post.CurrentEpochStartTime.Equal(p.CurrentEpochStartTime), post.EpochCountingStarted == p.EpochCountingStarted, post.CurrentEpochStartHeight == p.CurrentEpochStartHeight), "no tick: the identifier is untouched")
			continue
		}
		if !p.EpochCountingStarted {
			verifrt.Assert(verifrt.All(post.CurrentEpoch == 1, post.EpochCountingStarted, post.CurrentEpochStartTime.Equal(p.StartTime)), "first tick: epoch number becomes 1 and starts at the start time")
			want = append(want, call{false, id, 1})
		} else {
			verifrt.Assert(post.CurrentEpoch == p.CurrentEpoch+1, "a tick advances the epoch number by exactly one")
			verifrt.Assert(post.CurrentEpochStartTime.Equal(p.CurrentEpochStartTime.Add(p.Duration)), "the new epoch starts exactly one duration after the previous")
			want = append(want, call{true, id, p.CurrentEpoch}, call{false, id, p.CurrentEpoch + 1})
		}
		verifrt.Assert(post.CurrentEpochStartHeight == height, "tick records the block height")
		verifrt.Assert(verifrt.All(post.StartTime.Equal(p.StartTime), post.Duration == p.Duration, post.Identifier == id), "start time, duration and identifier never change")
	}
	ok := len(rec.calls) == len(want)
	if ok {
		for i := range want {
			ok = ok && rec.calls[i] == want[i]
		}
	}
	verifrt.Assert(ok, "notifications: end(n) then start(n+1), once each, per ticking identifier, in identifier order")
}

// VerifC15CatchUp: k consecutive blocks with non-decreasing times for one identifier: the epoch
// number rises by at most one per block, by one whenever the block time is past the epoch end,
// and no (identifier, number) is ever notified twice.
func VerifC15CatchUp() {
	blocks := verifrt.Param("blocks", 3)
	key := verifrt.StoreKey(epochstypes.StoreKey)
	info := symInfo("day", "e0")
	k := epochskeeper.NewKeeper(verifrt.Codec(), key)
	rec := &recorder{}
	k.SetHooks(epochstypes.NewMultiEpochHooks(rec))
	prev := symTime("t0")
	// reachable started states: counting starts in a block at or after StartTime, and block times
	// never decrease, so the previous block time and the current epoch start are >= StartTime
	if info.EpochCountingStarted {
		verifrt.Assume(verifrt.All(!prev.Before(info.StartTime), !info.CurrentEpochStartTime.Before(info.StartTime)))
	}
	ctx := verifrt.NewContextAt(1, prev, "exocoretestnet_233-1")
	put(ctx, info)
	last := info
	for b := 0; b < blocks; b++ {
		t := symTime(fmt.Sprintf("t%d", b+1))
		verifrt.Assume(!t.Before(prev))
		prev = t
		ctx = ctx.WithBlockTime(t).WithBlockHeight(int64(b + 2))
		k.BeginBlocker(ctx)
		cur, _ := k.GetEpochInfo(ctx, "day")
		if last.EpochCountingStarted {
			d := cur.CurrentEpoch - last.CurrentEpoch
			verifrt.Assert(verifrt.Any(d == 0, d == 1), "at most one epoch per block")
			verifrt.Assert((d == 1) == t.After(last.CurrentEpochStartTime.Add(last.Duration)), "epoch advances exactly when the block time is past the epoch end")
		}
		last = cur
	}
	// no duplicate notification
	dup := false
	for i := range rec.calls {
		for j := i + 1; j < len(rec.calls); j++ {
			if rec.calls[i] == rec.calls[j] {
				dup = true
			}
		}
	}
	verifrt.Assert(!dup, "no (identifier, number) notification is delivered twice")
	for i := 0; i+1 < len(rec.calls); i++ {
		verifrt.Assert(rec.calls[i].number <= rec.calls[i+1].number, "notifications are delivered in increasing epoch order")
	}
}
