//go:build verif

package avs

import (
	sdkmath "cosmossdk.io/math"
	"github.com/cosmos/cosmos-sdk/store/prefix"
	sdk "github.com/cosmos/cosmos-sdk/types"
	"github.com/ethereum/go-ethereum/accounts/abi"
	"github.com/ethereum/go-ethereum/common"
	ethtypes "github.com/ethereum/go-ethereum/core/types"
	"github.com/ethereum/go-ethereum/core/vm"

	avstypes "github.com/ExocoreNetwork/exocore/x/avs/types"
	epochstypes "github.com/ExocoreNetwork/exocore/x/epochs/types"
	oracletypes "github.com/ExocoreNetwork/exocore/x/oracle/types"

	"github.com/ExocoreNetwork/exocore/verifenv"
	"github.com/ExocoreNetwork/exocore/verifrt"
)

func verifOutputs(kinds ...string) abi.Arguments {
	out := abi.Arguments{}
	for _, k := range kinds {
		t, err := abi.NewType(k, "", nil)
		verifrt.Assume(err == nil)
		out = append(out, abi.Argument{Type: t})
	}
	return out
}

func verifABI() abi.ABI {
	m := map[string]abi.Method{}
	for name, n := range map[string]int{
		MethodRegisterAVS: 12, MethodUpdateAVS: 12, MethodDeregisterAVS: 2, MethodRegisterOperatorToAVS: 1,
		MethodDeregisterOperatorFromAVS: 1, MethodCreateAVSTask: 7, MethodChallenge: 5, MethodRegisterBLSPublicKey: 5,
	} {
		m[name] = abi.Method{Name: name, Inputs: make(abi.Arguments, n)}
	}
	return abi.ABI{Methods: m, Events: map[string]abi.Event{EventTypeRegisterAVSTask: {
		Inputs: verifOutputs("uint64", "string", "string", "bytes", "uint64", "uint64", "uint64", "uint64")}}}
}

// verifStateDB records emitted logs; nothing else of the EVM state is touched by the handlers.
type verifStateDB struct {
	vm.StateDB
	logs int
}

func (s *verifStateDB) AddLog(*ethtypes.Log) { s.logs++ }

var verifContracts = []string{
	"0x00000000000000000000000000000000000000a1",
	"0x00000000000000000000000000000000000000a2",
	"0x00000000000000000000000000000000000000a3",
}

func verifSameAVS(a, b *avstypes.AVSInfo) bool {
	return verifrt.All(a.Name == b.Name, a.AvsAddress == b.AvsAddress, a.TaskAddr == b.TaskAddr, a.SlashAddr == b.SlashAddr,
		a.RewardAddr == b.RewardAddr, len(a.AvsOwnerAddress) == len(b.AvsOwnerAddress), a.AvsOwnerAddress[0] == b.AvsOwnerAddress[0],
		a.StartingEpoch == b.StartingEpoch, a.MinStakeAmount == b.MinStakeAmount, a.AvsUnbondingPeriod == b.AvsUnbondingPeriod,
		a.EpochIdentifier == b.EpochIdentifier, len(a.AssetIDs) == len(b.AssetIDs))
}

// VerifC10AVSCaller: AVS management handlers called by one of three contracts (two of them are
// registered AVSs with different owners, the third is not an AVS) on behalf of one of three
// accounts. A call takes effect only on the AVS whose address is the calling contract and only
// when the account is a listed owner of that AVS; everything else leaves the stores unchanged.
func VerifC10AVSCaller() {
	f := verifenv.NewFull(100)
	f.Env.RegisterAsset(verifenv.LSTAddrHex, 6, sdkmath.NewInt(1000))
	st := prefix.NewStore(f.Ctx.KVStore(verifrt.StoreKey(epochstypes.StoreKey)), epochstypes.KeyPrefixEpoch)
	ep := epochstypes.EpochInfo{Identifier: verifenv.EpochDay, Duration: 3600000000000, CurrentEpoch: 5, EpochCountingStarted: true}
	st.Set([]byte(verifenv.EpochDay), f.Env.Cdc.MustMarshal(&ep))
	f.Oracle.Prices[verifenv.LSTAssetID()] = oracletypes.Price{Value: sdkmath.NewInt(2), Decimal: 0}
	addr := make([]common.Address, 3)
	for i := range addr {
		addr[i] = common.HexToAddress(verifContracts[i])
		f.RegisterOperator(i)
	}
	for i := 0; i < 2; i++ {
		verifrt.Assume(f.AVS.SetAVSInfo(f.Ctx, &avstypes.AVSInfo{
			Name: []string{"avs1", "avs2"}[i], AvsAddress: addr[i].String(), TaskAddr: addr[i].String(), SlashAddr: addr[i].String(), RewardAddr: addr[i].String(),
			AvsOwnerAddress: []string{verifenv.OperatorBech[i]}, AssetIDs: []string{verifenv.LSTAssetID()}, AvsUnbondingPeriod: 7, MinStakeAmount: 1,
			EpochIdentifier: verifenv.EpochDay, StartingEpoch: 3, AvsReward: sdkmath.LegacyZeroDec(), AvsSlash: sdkmath.LegacyZeroDec(),
		}) == nil)
		f.PutAVSUSDValue(addr[i].String(), sdkmath.LegacyNewDec(100))
	}
	p := Precompile{avsKeeper: *f.AVS}
	p.ABI = verifABI()

	c := verifrt.Choice("calling_contract", 3)
	s := verifrt.Choice("sender_account", 3)
	contract := &vm.Contract{CallerAddress: addr[c]}
	sender := common.BytesToAddress(verifenv.OperatorAddr(s))
	db := &verifStateDB{}
	before := make([]*avstypes.AVSInfo, 2)
	for i := range before {
		r, err := f.AVS.GetAVSInfo(f.Ctx, addr[i].String())
		verifrt.Assume(err == nil)
		before[i] = r.Info
	}
	full := func(owner int) []interface{} {
		return []interface{}{sender, "renamed", uint64(2), addr[c], addr[c], addr[c], []string{verifenv.OperatorBech[owner]},
			[]string{verifenv.LSTAssetID()}, uint64(7), uint64(0), verifenv.EpochDay, []uint64{1, 1, 1, 1}}
	}

	snap := verifrt.Snapshot(f.Ctx)
	var err error
	var out []byte
	which := verifrt.Choice("method", 6)
	ownerArg := 2
	switch which {
	case 0:
		ownerArg = verifrt.Choice("owner_in_payload", 3)
		out, err = p.RegisterAVS(f.Ctx, common.Address{}, contract, db, &abi.Method{Name: MethodRegisterAVS, Outputs: verifOutputs("bool")}, full(ownerArg))
	case 1:
		out, err = p.UpdateAVS(f.Ctx, common.Address{}, contract, db, &abi.Method{Name: MethodUpdateAVS, Outputs: verifOutputs("bool")}, full(2))
	case 2:
		out, err = p.DeregisterAVS(f.Ctx, common.Address{}, contract, db, &abi.Method{Name: MethodDeregisterAVS, Outputs: verifOutputs("bool")}, []interface{}{sender, []string{"avs1", "avs2", "avs3"}[c]})
	case 3:
		out, err = p.CreateAVSTask(f.Ctx, common.Address{}, contract, db, &abi.Method{Name: MethodCreateAVSTask, Outputs: verifOutputs("bool")},
			[]interface{}{sender, "task", []byte{1, 2, 3}, uint64(2), uint64(2), uint64(60), uint64(2)})
	case 4:
		out, err = p.BindOperatorToAVS(f.Ctx, common.Address{}, contract, db, &abi.Method{Name: MethodRegisterOperatorToAVS, Outputs: verifOutputs("bool")}, []interface{}{sender})
	case 5:
		out, err = p.UnbindOperatorToAVS(f.Ctx, common.Address{}, contract, db, &abi.Method{Name: MethodDeregisterOperatorFromAVS, Outputs: verifOutputs("bool")}, []interface{}{sender})
	}
	verifrt.Debug("err", err)
	served := verifrt.All(err == nil, out != nil)
	if !served {
		verifrt.Assert(err != nil, "a call that is not served reports an error")
		verifrt.Assert(verifrt.SameState(f.Ctx, snap), "a rejected call changes no store")
	} else {
		verifrt.Cover("served: " + []string{"registerAVS", "updateAVS", "deregisterAVS", "createTask", "registerOperatorToAVS", "deregisterOperatorFromAVS"}[which])
		switch which {
		case 0:
			verifrt.Assert(verifrt.All(c == 2, s == ownerArg), "registration is served only for a contract that is not yet an AVS and a sender listed among the owners it registers")
			r, gerr := f.AVS.GetAVSInfo(f.Ctx, addr[c].String())
			verifrt.Assert(gerr == nil && r.Info.AvsAddress == addr[c].String(), "the AVS is registered under the calling contract's address")
		case 1, 2, 3:
			verifrt.Assert(verifrt.All(c < 2, s == c), "update, deregistration and task creation are served only for the calling contract's own AVS and a listed owner of it")
		case 4, 5:
			verifrt.Assert(c < 2, "operators are bound only to the calling contract's own AVS")
		}
	}
	// whatever happened, AVSs other than the calling contract's are untouched
	for i := range before {
		if i != c {
			r, gerr := f.AVS.GetAVSInfo(f.Ctx, addr[i].String())
			verifrt.Assert(gerr == nil && verifSameAVS(r.Info, before[i]), "an AVS other than the calling contract's is never modified")
		}
	}
	_ = sdk.AccAddress{}
}
