//go:build verif

package assets

import (
	"math/big"

	sdkmath "cosmossdk.io/math"
	"github.com/ethereum/go-ethereum/accounts/abi"
	"github.com/ethereum/go-ethereum/common"
	"github.com/ethereum/go-ethereum/core/vm"

	assetstypes "github.com/ExocoreNetwork/exocore/x/assets/types"

	"github.com/ExocoreNetwork/exocore/verifenv"
	"github.com/ExocoreNetwork/exocore/verifrt"
)

const verifGateway = "0x00000000000000000000000000000000000000aa"
const verifTopic = "0xc6a377bfc4eb120024a8ac08eef205be16b817020812c73223e81d1bdb9708ec"

// verifABI carries the arity of every method as in abi.json (the handlers only read the arity).
func verifABI() abi.ABI {
	m := map[string]abi.Method{}
	for name, n := range map[string]int{
		MethodDepositLST: 4, MethodDepositNST: 4, MethodWithdrawLST: 4, MethodWithdrawNST: 4,
		MethodRegisterOrUpdateClientChain: 5, MethodRegisterToken: 6, MethodUpdateToken: 3,
		MethodIsRegisteredClientChain: 1, MethodGetClientChains: 0,
	} {
		m[name] = abi.Method{Name: name, Inputs: make(abi.Arguments, n)}
	}
	return abi.ABI{Methods: m}
}

// verifOutputs builds the output signature of a method (needed natively by Outputs.Pack).
func verifOutputs(kinds ...string) abi.Arguments {
	out := abi.Arguments{}
	for _, k := range kinds {
		t, err := abi.NewType(k, "", nil)
		verifrt.Assume(err == nil)
		out = append(out, abi.Argument{Type: t})
	}
	return out
}

func verifCaller(tag string) common.Address {
	var a common.Address
	copy(a[:], verifrt.Bytes(tag, 20))
	return a
}

// VerifC10AssetsGateway: each state-changing handler of the assets precompile, called with a
// well-formed payload by an arbitrary 20-byte caller against a state holding a client chain, a
// token and a staker deposit. Any caller other than the configured gateway gets an error and
// leaves every store unchanged; the gateway itself is served.
func VerifC10AssetsGateway() {
	f := verifenv.NewFull(100)
	verifrt.Assume(f.Assets.SetParams(f.Ctx, &assetstypes.Params{ExocoreLzAppAddress: verifGateway, ExocoreLzAppEventTopic: verifTopic}) == nil)
	f.Env.RegisterAsset(verifenv.LSTAddrHex, 6, sdkmath.NewInt(1000))
	f.Env.RegisterAsset("0xeeeeeeeeeeeeeeeeeeeeeeeeeeeeeeeeeeeeeeee", 18, sdkmath.NewInt(0))
	f.Env.PutStakerAsset(0, verifenv.LSTAssetID(), assetstypes.StakerAssetInfo{TotalDepositAmount: sdkmath.NewInt(1000), WithdrawableAmount: sdkmath.NewInt(1000), PendingUndelegationAmount: sdkmath.ZeroInt()})
	p := Precompile{assetsKeeper: f.Assets}
	p.ABI = verifABI()

	caller := verifCaller("caller")
	contract := &vm.Contract{CallerAddress: caller}
	isGateway := caller == common.HexToAddress(verifGateway)
	amount := new(big.Int).SetUint64(uint64(verifrt.U32("amount")))
	pad := func(b []byte) []byte { return append(append([]byte{}, b...), make([]byte, 12)...) }

	snap := verifrt.Snapshot(f.Ctx)
	var err error
	var out []byte
	which := verifrt.Choice("method", 6)
	switch which {
	case 0:
		m := &abi.Method{Name: MethodDepositLST, Outputs: verifOutputs("bool", "uint256")}
		out, err = p.DepositOrWithdraw(f.Ctx, common.Address{}, contract, nil, m, []interface{}{uint32(verifenv.LzID), pad(verifenv.LSTAddr()), pad(verifenv.StakerAddr(0)), amount})
	case 1:
		m := &abi.Method{Name: MethodWithdrawLST, Outputs: verifOutputs("bool", "uint256")}
		out, err = p.DepositOrWithdraw(f.Ctx, common.Address{}, contract, nil, m, []interface{}{uint32(verifenv.LzID), pad(verifenv.LSTAddr()), pad(verifenv.StakerAddr(0)), amount})
	case 2:
		m := &abi.Method{Name: MethodDepositNST, Outputs: verifOutputs("bool", "uint256")}
		out, err = p.DepositOrWithdraw(f.Ctx, common.Address{}, contract, nil, m, []interface{}{uint32(verifenv.LzID), []byte{1, 2, 3}, pad(verifenv.StakerAddr(0)), amount})
	case 3:
		m := &abi.Method{Name: MethodRegisterOrUpdateClientChain, Outputs: verifOutputs("bool", "bool")}
		out, err = p.RegisterOrUpdateClientChain(f.Ctx, contract, m, []interface{}{uint32(102), uint8(20), "chain", "meta", "ecdsa"})
	case 4:
		m := &abi.Method{Name: MethodRegisterToken, Outputs: verifOutputs("bool")}
		out, err = p.RegisterToken(f.Ctx, contract, m, []interface{}{uint32(verifenv.LzID), pad(verifenv.LST2Addr()), uint8(18), "tok", "meta", "tok,eth,18"})
	case 5:
		m := &abi.Method{Name: MethodUpdateToken, Outputs: verifOutputs("bool")}
		out, err = p.UpdateToken(f.Ctx, contract, m, []interface{}{uint32(verifenv.LzID), pad(verifenv.LSTAddr()), "new meta"})
	}
	if !isGateway {
		verifrt.Assert(err != nil, "a caller other than the gateway contract is rejected with an error")
		verifrt.Assert(out == nil, "a rejected call returns no output")
		verifrt.Assert(verifrt.SameState(f.Ctx, snap), "a rejected caller changes no store")
	} else if err == nil {
		verifrt.Cover("gateway served: " + []string{"depositLST", "withdrawLST", "depositNST", "registerOrUpdateClientChain", "registerToken", "updateToken"}[which])
		if which == 0 || (which >= 3) {
			verifrt.Assert(!verifrt.SameState(f.Ctx, snap), "the gateway's call takes effect")
		}
	}
}
