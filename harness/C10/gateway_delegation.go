//go:build verif

package delegation

import (
	"math/big"

	sdkmath "cosmossdk.io/math"
	"github.com/ethereum/go-ethereum/accounts/abi"
	"github.com/ethereum/go-ethereum/common"
	"github.com/ethereum/go-ethereum/core/vm"

	assetstypes "github.com/ExocoreNetwork/exocore/x/assets/types"
	delegationtypes "github.com/ExocoreNetwork/exocore/x/delegation/types"

	"github.com/ExocoreNetwork/exocore/verifenv"
	"github.com/ExocoreNetwork/exocore/verifrt"
)

const verifGateway = "0x00000000000000000000000000000000000000aa"
const verifTopic = "0xc6a377bfc4eb120024a8ac08eef205be16b817020812c73223e81d1bdb9708ec"

func verifOutputs(kinds ...string) abi.Arguments {
	out := abi.Arguments{}
	for _, k := range kinds {
		t, err := abi.NewType(k, "", nil)
		verifrt.Assume(err == nil)
		out = append(out, abi.Argument{Type: t})
	}
	return out
}

func verifABI() abi.ABI {
	m := map[string]abi.Method{}
	for name, n := range map[string]int{
		MethodDelegate: 6, MethodUndelegate: 6, MethodAssociateOperatorWithStaker: 3, MethodDissociateOperatorFromStaker: 2,
	} {
		m[name] = abi.Method{Name: name, Inputs: make(abi.Arguments, n)}
	}
	return abi.ABI{Methods: m}
}

// VerifC10DelegationGateway: delegate, undelegate, associate and dissociate handlers with an
// arbitrary caller over a state where each of them would succeed for the gateway.
func VerifC10DelegationGateway() {
	f := verifenv.NewFull(100)
	verifrt.Assume(f.Assets.SetParams(f.Ctx, &assetstypes.Params{ExocoreLzAppAddress: verifGateway, ExocoreLzAppEventTopic: verifTopic}) == nil)
	f.Env.RegisterAsset(verifenv.LSTAddrHex, 6, sdkmath.NewInt(1000))
	f.RegisterOperator(0)
	f.RegisterOperator(1)
	asset := verifenv.LSTAssetID()
	f.Env.PutStakerAsset(0, asset, assetstypes.StakerAssetInfo{TotalDepositAmount: sdkmath.NewInt(1000), WithdrawableAmount: sdkmath.NewInt(500), PendingUndelegationAmount: sdkmath.ZeroInt()})
	f.Env.PutOperatorAsset(0, asset, assetstypes.OperatorAssetInfo{TotalAmount: sdkmath.NewInt(500), PendingUndelegationAmount: sdkmath.ZeroInt(), TotalShare: sdkmath.LegacyNewDec(500), OperatorShare: sdkmath.LegacyZeroDec()})
	f.Env.PutDelegation(0, 0, asset, delegationtypes.DelegationAmounts{UndelegatableShare: sdkmath.LegacyNewDec(500), WaitUndelegationAmount: sdkmath.ZeroInt()})
	// staker 1 is associated with operator 1 (so that dissociate has something to remove)
	verifrt.Assume(f.Deleg.SetAssociatedOperator(f.Ctx, verifenv.StakerID(1), verifenv.OperatorBech[1]) == nil)

	p := Precompile{assetsKeeper: f.Assets, delegationKeeper: *f.Deleg}
	p.ABI = verifABI()
	var caller common.Address
	copy(caller[:], verifrt.Bytes("caller", 20))
	contract := &vm.Contract{CallerAddress: caller}
	isGateway := caller == common.HexToAddress(verifGateway)
	amount := new(big.Int).SetUint64(uint64(verifrt.U32("amount")))
	pad := func(b []byte) []byte { return append(append([]byte{}, b...), make([]byte, 12)...) }
	ctx := f.Ctx.WithValue(CtxKeyTxHash, common.HexToHash("0x1111111111111111111111111111111111111111111111111111111111111111"))

	snap := verifrt.Snapshot(ctx)
	var err error
	var out []byte
	which := verifrt.Choice("method", 4)
	switch which {
	case 0:
		out, err = p.Delegate(ctx, common.Address{}, contract, nil, &abi.Method{Name: MethodDelegate, Outputs: verifOutputs("bool")},
			[]interface{}{uint32(verifenv.LzID), uint64(7), pad(verifenv.LSTAddr()), pad(verifenv.StakerAddr(0)), []byte(verifenv.OperatorBech[0]), amount})
	case 1:
		out, err = p.Undelegate(ctx, common.Address{}, contract, nil, &abi.Method{Name: MethodUndelegate, Outputs: verifOutputs("bool")},
			[]interface{}{uint32(verifenv.LzID), uint64(7), pad(verifenv.LSTAddr()), pad(verifenv.StakerAddr(0)), []byte(verifenv.OperatorBech[0]), amount})
	case 2:
		out, err = p.AssociateOperatorWithStaker(ctx, common.Address{}, contract, nil, &abi.Method{Name: MethodAssociateOperatorWithStaker, Outputs: verifOutputs("bool")},
			[]interface{}{uint32(verifenv.LzID), pad(verifenv.StakerAddr(0)), []byte(verifenv.OperatorBech[0])})
	case 3:
		out, err = p.DissociateOperatorFromStaker(ctx, common.Address{}, contract, nil, &abi.Method{Name: MethodDissociateOperatorFromStaker, Outputs: verifOutputs("bool")},
			[]interface{}{uint32(verifenv.LzID), pad(verifenv.StakerAddr(1))})
	}
	if !isGateway {
		verifrt.Assert(err != nil, "a caller other than the gateway contract is rejected with an error")
		verifrt.Assert(out == nil, "a rejected call returns no output")
		verifrt.Assert(verifrt.SameState(ctx, snap), "a rejected caller changes no store")
	} else if err == nil {
		verifrt.Cover("gateway served: " + []string{"delegate", "undelegate", "associate", "dissociate"}[which])
		verifrt.Assert(!verifrt.SameState(ctx, snap), "the gateway's call takes effect")
	}
}
