//go:build verif

package c10

import (
	sdkmath "cosmossdk.io/math"
	"github.com/cosmos/cosmos-sdk/store/prefix"
	sdk "github.com/cosmos/cosmos-sdk/types"

	avstypes "github.com/ExocoreNetwork/exocore/x/avs/types"
	dogfoodtypes "github.com/ExocoreNetwork/exocore/x/dogfood/types"
	epochstypes "github.com/ExocoreNetwork/exocore/x/epochs/types"
	exominttypes "github.com/ExocoreNetwork/exocore/x/exomint/types"
	distrkeeper "github.com/ExocoreNetwork/exocore/x/feedistribution/keeper"
	distrtypes "github.com/ExocoreNetwork/exocore/x/feedistribution/types"

	"github.com/ExocoreNetwork/exocore/verifenv"
	"github.com/ExocoreNetwork/exocore/verifrt"
)

// VerifC10Authority: the parameter-change handlers of dogfood, exomint and feedistribution on a
// mainnet and on a testnet chain id, signed by the governance authority or by another account:
// on mainnet only the authority's request takes effect; anyone else gets an error and no store
// changes.
func VerifC10Authority() {
	d := verifenv.NewDistr(100)
	mainnet := verifrt.Bool("mainnet_chain_id")
	chain := "exocoretestnet_233-1"
	if mainnet {
		chain = "exocore_233-1"
	}
	ctx := d.Ctx.WithChainID(chain)
	st := prefix.NewStore(ctx.KVStore(verifrt.StoreKey(epochstypes.StoreKey)), epochstypes.KeyPrefixEpoch)
	for _, id := range []string{verifenv.EpochDay, verifenv.EpochHour} {
		ep := epochstypes.EpochInfo{Identifier: id, Duration: 3600000000000, CurrentEpoch: 5, EpochCountingStarted: true}
		st.Set([]byte(id), d.Env.Cdc.MustMarshal(&ep))
	}
	_, aerr := d.AVS.RegisterAVSWithChainID(ctx, &avstypes.AVSRegisterOrDeregisterParams{AvsName: "dogfood", UnbondingPeriod: 7, EpochIdentifier: verifenv.EpochDay,
		ChainID: chain, AvsOwnerAddress: []string{verifenv.Authority}})
	verifrt.Assume(aerr == nil)
	d.Dogfood.SetParams(ctx, dogfoodtypes.Params{EpochsUntilUnbonded: 7, EpochIdentifier: verifenv.EpochDay, MaxValidators: 4, HistoricalEntries: 10, MinSelfDelegation: sdkmath.ZeroInt()})
	d.Mint.SetParams(ctx, exominttypes.DefaultParams())
	d.Distr.SetParams(ctx, distrtypes.Params{EpochIdentifier: verifenv.EpochDay})
	signer := []string{verifenv.Authority, verifenv.OperatorBech[0]}[verifrt.Choice("signer", 2)]
	isAuthority := signer == verifenv.Authority

	snap := verifrt.Snapshot(ctx)
	var err error
	which := verifrt.Choice("module", 3)
	switch which {
	case 0:
		_, err = d.Dogfood.UpdateParams(sdk.WrapSDKContext(ctx), &dogfoodtypes.MsgUpdateParams{Authority: signer,
			Params: dogfoodtypes.Params{EpochsUntilUnbonded: 3, EpochIdentifier: verifenv.EpochHour, MaxValidators: 9, HistoricalEntries: 5, MinSelfDelegation: sdkmath.NewInt(7)}})
	case 1:
		_, err = d.Mint.UpdateParams(sdk.WrapSDKContext(ctx), &exominttypes.MsgUpdateParams{Authority: signer,
			Params: exominttypes.Params{MintDenom: "hua", EpochReward: sdkmath.NewInt(12345), EpochIdentifier: verifenv.EpochHour}})
	case 2:
		_, err = distrkeeper.NewMsgServerImpl(d.Distr).UpdateParams(sdk.WrapSDKContext(ctx), &distrtypes.MsgUpdateParams{Authority: signer,
			Params: distrtypes.Params{EpochIdentifier: verifenv.EpochHour}})
	}
	if verifrt.All(mainnet, !isAuthority) {
		verifrt.Assert(err != nil, "on a mainnet chain id a parameter change not signed by the governance authority is rejected")
		verifrt.Assert(verifrt.SameState(ctx, snap), "a rejected parameter change changes no store")
	} else if err == nil {
		verifrt.Cover("parameter change served: " + []string{"dogfood", "exomint", "feedistribution"}[which])
		verifrt.Assert(!verifrt.SameState(ctx, snap), "an authorised parameter change takes effect")
	}
}
