//go:build verif

package c01

import (
	sdkmath "cosmossdk.io/math"

	assetskeeper "github.com/ExocoreNetwork/exocore/x/assets/keeper"
	assetstypes "github.com/ExocoreNetwork/exocore/x/assets/types"

	"github.com/ExocoreNetwork/exocore/verifenv"
	"github.com/ExocoreNetwork/exocore/verifrt"
)

func setup() (*verifenv.Env, *verifenv.Ledger) {
	ns := verifrt.Param("stakers", 2)
	no := verifrt.Param("operators", 1)
	bits := verifrt.Param("amount_bits", 127)
	e := verifenv.NewLedgerEnv(100, no)
	total := verifrt.Int("staking_total")
	verifrt.Assume(verifrt.All(!total.IsNegative(), total.LTE(sdkmath.NewInt(8).Mul(verifPow2(bits)))))
	e.RegisterAsset(verifenv.LSTAddrHex, 18, total)
	l := verifenv.NewSymbolicLedger(e, ns, no, verifenv.LSTAssetID(), bits)
	l.AssumeStakingTotalCovers(total)
	return e, l
}

// VerifC01Delegate: one DelegateTo step from an arbitrary invariant-satisfying ledger.
func VerifC01Delegate() {
	e, l := setup()
	pre := l.Read()
	// stakers and operators are interchangeable in the universe: the acting pair is (0,0) w.l.o.g.
	s, o := 0, 0
	x := boundedAmount(l)
	err := e.Deleg.DelegateTo(e.Ctx, verifenv.DelegParams(s, o, verifenv.LSTAddr(), x, 1))
	post := l.Read()
	if err != nil {
		l.AssertSame(pre, post, "failed delegation leaves the ledger unchanged")
		return
	}
	verifrt.Assert(verifrt.All(x.IsPositive(), x.LTE(pre.Withdrawable[s])), "delegation accepted only within the withdrawable balance")
	verifrt.Assert(post.Sigma().Equal(pre.Sigma()), "delegation does not change the ledger sum")
	verifrt.Assert(post.Withdrawable[s].Equal(pre.Withdrawable[s].Sub(x)), "withdrawable decreases by exactly x")
	verifrt.Assert(post.PoolAmount[o].Equal(pre.PoolAmount[o].Add(x)), "pool increases by exactly x")
	verifrt.Assert(post.StakingTotal.Equal(pre.StakingTotal), "staking total untouched by delegation")
	minted := post.Share[s][o].Sub(pre.Share[s][o])
	verifrt.Assert(minted.GTE(sdkmath.LegacyNewDecFromInt(x)), "shares minted are at least the amount delegated (rate never below 1)")
	l.AssertInv(post, l.Assoc, "after delegate")
}

var _ = sdkmath.ZeroInt

// VerifC01Undelegate: one UndelegateFrom step. The removed tokens leave the pool and become a
// pending record of exactly that amount; nothing is created.
func VerifC01Undelegate() {
	e, l := setup()
	pre := l.Read()
	s, o := 0, 0
	x := boundedAmount(l)
	nonce := verifrt.U64("nonce")
	verifrt.Assume(nonce < 16)
	err := e.Deleg.UndelegateFrom(e.Ctx, verifenv.DelegParams(s, o, verifenv.LSTAddr(), x, nonce))
	post := l.Read()
	if err != nil {
		l.AssertSame(pre, post, "failed undelegation leaves the ledger unchanged")
		return
	}
	removed := pre.PoolAmount[o].Sub(post.PoolAmount[o])
	verifrt.Assert(verifrt.All(!removed.IsNegative(), removed.LTE(pre.PoolAmount[o])), "removed tokens are within the pool")
	verifrt.Assert(post.Sigma().Equal(pre.Sigma()), "undelegation moves tokens from the pool to pending; the ledger sum is unchanged")
	verifrt.Assert(post.Liquid().Equal(pre.Liquid().Sub(removed)), "tokens leaving the pool are not credited anywhere else")
	verifrt.Assert(post.PoolPending[o].Equal(pre.PoolPending[o].Add(removed)), "operator pending figure grows by exactly the removed tokens")
	verifrt.Assert(post.StPending[s].Equal(pre.StPending[s].Add(removed)), "staker pending figure grows by exactly the removed tokens")
	verifrt.Assert(post.Wait[s][o].Equal(pre.Wait[s][o].Add(removed)), "delegation wait figure grows by exactly the removed tokens")
	verifrt.Assert(post.Withdrawable[s].Equal(pre.Withdrawable[s]), "withdrawable untouched until completion")
	verifrt.Assert(post.StakingTotal.Equal(pre.StakingTotal), "staking total untouched by undelegation")
	recs, rerr := e.Deleg.GetStakerUndelegationRecords(e.Ctx, verifenv.StakerID(s), l.AssetID)
	verifrt.Assert(verifrt.All(rerr == nil, len(recs) == 1), "exactly one pending record is created")
	if rerr == nil && len(recs) == 1 {
		r := recs[0]
		verifrt.Assert(verifrt.All(r.Amount.Equal(removed), r.ActualCompletedAmount.Equal(removed)), "the record owes exactly the removed tokens")
		verifrt.Assert(verifrt.All(r.StakerID == verifenv.StakerID(s), r.OperatorAddr == verifenv.OperatorBech[o], r.AssetID == l.AssetID), "the record names the staker, operator and asset")
		verifrt.Assert(r.CompleteBlockNumber >= uint64(e.Ctx.BlockHeight()), "completion height is not in the past")
	}
	l.AssertInv(post, l.Assoc, "after undelegate")
}

// VerifC01DepositWithdraw: PerformDepositOrWithdraw for LST deposit / withdraw.
func VerifC01DepositWithdraw() {
	e, l := setup()
	pre := l.Read()
	s := 0
	x := boundedAmount(l)
	isWithdraw := verifrt.Bool("withdraw")
	action := assetstypes.DepositLST
	if isWithdraw {
		action = assetstypes.WithdrawLST
	}
	err := e.Assets.PerformDepositOrWithdraw(e.Ctx, &assetskeeper.DepositWithdrawParams{
		ClientChainLzID: verifenv.LzID, Action: action, AssetsAddress: verifenv.LSTAddr(), StakerAddress: verifenv.StakerAddr(s), OpAmount: x,
	})
	post := l.Read()
	if err != nil {
		l.AssertSame(pre, post, "failed deposit/withdraw leaves the ledger unchanged")
		return
	}
	verifrt.Assert(!x.IsNegative(), "negative amounts are rejected")
	if isWithdraw {
		verifrt.Assert(x.LTE(pre.Withdrawable[s]), "withdraw requires withdrawable >= amount")
		verifrt.Assert(post.Withdrawable[s].Equal(pre.Withdrawable[s].Sub(x)), "withdrawable decreases by exactly x")
		verifrt.Assert(post.StakingTotal.Equal(pre.StakingTotal.Sub(x)), "staking total decreases by exactly x")
		verifrt.Assert(post.Sigma().Equal(pre.Sigma().Sub(x)), "ledger sum decreases by exactly x")
	} else {
		verifrt.Assert(post.Withdrawable[s].Equal(pre.Withdrawable[s].Add(x)), "withdrawable increases by exactly x")
		verifrt.Assert(post.StakingTotal.Equal(pre.StakingTotal.Add(x)), "staking total increases by exactly x")
		verifrt.Assert(post.Sigma().Equal(pre.Sigma().Add(x)), "ledger sum increases by exactly x")
	}
	for o := 0; o < l.NO; o++ {
		verifrt.Assert(verifrt.All(post.PoolAmount[o].Equal(pre.PoolAmount[o]), post.PoolShare[o].Equal(pre.PoolShare[o])), "pools untouched by deposit/withdraw")
	}
	l.AssertInv(post, l.Assoc, "after deposit/withdraw")
}

// the operation amount: any integer up to the ledger bound (larger values hit sdk.Int's 256-bit
// overflow panic, which DeliverTx recovers; outside this claim), including zero and negatives
func boundedAmount(l *verifenv.Ledger) sdkmath.Int {
	x := verifrt.Int("x")
	verifrt.Assume(verifrt.All(x.LTE(l.Max), x.GTE(l.Max.Neg())))
	return x
}

func verifPow2(n int) sdkmath.Int {
	v := sdkmath.NewInt(1)
	for i := 0; i < n; i++ {
		v = v.MulRaw(2)
	}
	return v
}
