//go:build verif

package c01

import (
	sdkmath "cosmossdk.io/math"

	"github.com/ExocoreNetwork/exocore/verifenv"
	"github.com/ExocoreNetwork/exocore/verifrt"
)

func setup() (*verifenv.Env, *verifenv.Ledger) {
	ns := verifrt.Param("stakers", 2)
	no := verifrt.Param("operators", 1)
	bits := verifrt.Param("amount_bits", 127)
	e := verifenv.NewLedgerEnv(100, no)
	total := verifrt.Int("staking_total")
	verifrt.Assume(!total.IsNegative())
	e.RegisterAsset(verifenv.LSTAddrHex, 18, total)
	l := verifenv.NewSymbolicLedger(e, ns, no, verifenv.LSTAssetID(), bits)
	return e, l
}

// VerifC01Delegate: one DelegateTo step from an arbitrary invariant-satisfying ledger.
func VerifC01Delegate() {
	e, l := setup()
	pre := l.Read()
	// stakers and operators are interchangeable in the universe: the acting pair is (0,0) w.l.o.g.
	s, o := 0, 0
	x := verifrt.Int("x")
	err := e.Deleg.DelegateTo(e.Ctx, verifenv.DelegParams(s, o, verifenv.LSTAddr(), x, 1))
	post := l.Read()
	if err != nil {
		l.AssertSame(pre, post, "failed delegation leaves the ledger unchanged")
		return
	}
	verifrt.Assert(x.IsPositive() && x.LTE(pre.Withdrawable[s]), "delegation accepted only within the withdrawable balance")
	verifrt.Assert(post.Sigma().Equal(pre.Sigma()), "delegation does not change the ledger sum")
	verifrt.Assert(post.Withdrawable[s].Equal(pre.Withdrawable[s].Sub(x)), "withdrawable decreases by exactly x")
	verifrt.Assert(post.PoolAmount[o].Equal(pre.PoolAmount[o].Add(x)), "pool increases by exactly x")
	verifrt.Assert(post.StakingTotal.Equal(pre.StakingTotal), "staking total untouched by delegation")
	minted := post.Share[s][o].Sub(pre.Share[s][o])
	verifrt.Assert(minted.GTE(sdkmath.LegacyNewDecFromInt(x)), "shares minted are at least the amount delegated (rate never below 1)")
	l.AssertInv(post, l.Assoc, "after delegate")
}

var _ = sdkmath.ZeroInt
