//go:build verif

package c08

import (
	avskeeper "github.com/ExocoreNetwork/exocore/x/avs/keeper"
	avstypes "github.com/ExocoreNetwork/exocore/x/avs/types"

	"github.com/ExocoreNetwork/exocore/verifenv"
	"github.com/ExocoreNetwork/exocore/verifrt"
)

// VerifC08TaskGrouping: 2-safety of the grouping of task results that the AVS epoch-end hook walks
// to build the stored signer list and power list of a task: the function is run twice on the same
// results, each time under an arbitrary iteration order of every Go map it ranges over; the
// groups and the order of the operators inside each group must be identical (the order becomes
// part of the stored TaskInfo bytes).
func VerifC08TaskGrouping() {
	n := verifrt.Param("results", 3)
	tasks := make([]avstypes.TaskResultInfo, 0, n)
	for i := 0; i < n; i++ {
		// results of distinct operators (the store key is operator/task contract/task id), each for
		// one of two tasks of one contract, listed in any order
		tasks = append(tasks, avstypes.TaskResultInfo{
			OperatorAddress:     verifenv.OperatorBech[i%len(verifenv.OperatorBech)],
			TaskContractAddress: "0x00000000000000000000000000000000000000aa",
			TaskId:              uint64(1 + verifrt.Choice([]string{"result0_task", "result1_task", "result2_task", "result3_task"}[i], 2)),
		})
	}
	k := avskeeper.Keeper{}
	verifrt.MapOrder("permute")
	g1 := k.GroupTasksByIDAndAddress(tasks)
	g2 := k.GroupTasksByIDAndAddress(tasks)
	verifrt.MapOrder("insertion")
	verifrt.Assert(len(g1) == len(g2), "the same task groups whatever the map iteration order")
	total := 0
	for key, a := range g1 {
		b, ok := g2[key]
		verifrt.Assert(ok, "the same task groups whatever the map iteration order")
		verifrt.Assert(len(a) == len(b), "the same results in a group whatever the map iteration order")
		if len(a) != len(b) {
			continue
		}
		for i := range a {
			verifrt.Assert(a[i].OperatorAddress == b[i].OperatorAddress, "the order of the operators inside a task group does not depend on map iteration order")
			if i > 0 {
				verifrt.Assert(a[i-1].OperatorAddress < a[i].OperatorAddress, "a task group is ordered by operator address")
			}
		}
		total += len(a)
	}
	verifrt.Assert(total == n, "every result is in exactly one group")
	if len(g1) == 1 && n > 1 {
		verifrt.Cover("several operators signed the same task")
	}
}
