//go:build verif

package keeper

import (
	"github.com/ExocoreNetwork/exocore/x/oracle/types"

	"github.com/ExocoreNetwork/exocore/verifrt"
)

func verifC08Keeper() Keeper {
	return Keeper{cdc: verifrt.Codec(), storeKey: verifrt.StoreKey(types.StoreKey)}
}

// VerifC08NonceRemovalOrder (2-safety): the oracle EndBlock removes the nonces of the feeders
// sealed in a block in the iteration order of a Go map. Removing two feeders in either order must
// leave byte-identical validator nonce records.
func VerifC08NonceRemovalOrder() {
	k := verifC08Keeper()
	n := verifrt.Param("feeders", 4)
	val := "exovalcons1qyqszqgpqyqszqgpqyqszqgpqyqszqgpya0gv2"
	mk := func() []*types.Nonce {
		l := make([]*types.Nonce, 0, n)
		for i := 0; i < n; i++ {
			l = append(l, &types.Nonce{FeederID: uint64(i + 1), Value: verifrt.U32("nonce_f" + string(rune('1'+i)))})
		}
		return l
	}
	// two feeders to remove, symbolic choice
	a := verifrt.Choice("first", n)
	b := verifrt.Choice("second", n)
	verifrt.Assume(a != b)
	// two independent executions of the same block from the same state
	l := mk()
	ctx1 := verifrt.NewContext(10, 1700000000, "exocoretestnet_233-1")
	ctx2 := verifrt.NewContext(10, 1700000000, "exocoretestnet_233-1")
	k.SetNonce(ctx1, types.ValidatorNonce{Validator: val, NonceList: l})
	k.SetNonce(ctx2, types.ValidatorNonce{Validator: val, NonceList: l})
	k.RemoveNonceWithFeederIDForValidators(ctx1, uint64(a+1), []string{val})
	k.RemoveNonceWithFeederIDForValidators(ctx1, uint64(b+1), []string{val})
	k.RemoveNonceWithFeederIDForValidators(ctx2, uint64(b+1), []string{val})
	k.RemoveNonceWithFeederIDForValidators(ctx2, uint64(a+1), []string{val})
	r1, f1 := k.GetNonce(ctx1, val)
	r2, f2 := k.GetNonce(ctx2, val)
	same := f1 == f2 && len(r1.NonceList) == len(r2.NonceList)
	if same {
		for i := range r1.NonceList {
			same = same && r1.NonceList[i].FeederID == r2.NonceList[i].FeederID && r1.NonceList[i].Value == r2.NonceList[i].Value
		}
	}
	verifrt.Assert(same, "removing the sealed feeders' nonces in either order leaves the same stored record")
}
