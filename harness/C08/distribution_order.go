//go:build verif

package c17

import (
	sdkmath "cosmossdk.io/math"
	sdk "github.com/cosmos/cosmos-sdk/types"

	distrtypes "github.com/ExocoreNetwork/exocore/x/feedistribution/types"
	operatortypes "github.com/ExocoreNetwork/exocore/x/operator/types"
	oracletypes "github.com/ExocoreNetwork/exocore/x/oracle/types"

	"github.com/ExocoreNetwork/exocore/verifenv"
	"github.com/ExocoreNetwork/exocore/verifrt"
)

// VerifC08DistributionOrder (2-safety): the staker reward allocation walks Go maps (the AVS's
// asset set, the staker power table). Two executions of the same allocation from the same state,
// each under an arbitrary iteration order of every map, must leave identical stores and the same
// community-pool figure.
func VerifC08DistributionOrder() {
	d := verifenv.NewDistr(100)
	d.Env.RegisterAsset(verifenv.LSTAddrHex, 0, sdkmath.ZeroInt())
	d.Env.RegisterAsset(verifenv.LST2Hex, 0, sdkmath.ZeroInt())
	ids := verifenv.AssetIDs()
	for _, id := range ids {
		d.Oracle.Prices[id] = oracletypes.Price{Value: sdkmath.NewInt(1), Decimal: 0}
	}
	d.RegisterAVS(verifenv.AVSAddr, []string{ids[0], ids[1]}, 0, verifenv.EpochDay)
	info := &operatortypes.OperatorInfo{EarningsAddr: verifenv.OperatorBech[0], OperatorMetaInfo: "op", Commission: verifenv.CommissionOf(sdkmath.LegacyNewDecWithPrec(1, 1))}
	verifrt.Assume(d.Operator.SetOperatorInfo(d.Ctx, verifenv.OperatorBech[0], info) == nil)
	verifrt.Assume(d.Operator.SetOptedInfo(d.Ctx, verifenv.OperatorBech[0], verifenv.AVSAddr, &operatortypes.OptedInfo{OptedInHeight: 10, OptedOutHeight: operatortypes.DefaultOptedOutHeight}) == nil)
	d.PutUSDValue(verifenv.AVSAddr, 0, operatortypes.OperatorOptedUSDValue{SelfUSDValue: sdkmath.LegacyZeroDec(), TotalUSDValue: sdkmath.LegacyNewDec(5), ActiveUSDValue: sdkmath.LegacyNewDec(5)})
	// two stakers; staker 0 holds asset A and B, staker 1 holds asset B; small amounts chosen
	// symbolically (equal powers included: ties in the power sort)
	hold := [][]int64{{int64(1 + verifrt.Choice("s0_a", 2)), int64(1 + verifrt.Choice("s0_b", 2))}, {0, int64(1 + verifrt.Choice("s1_b", 3))}}
	for a, id := range ids {
		total := hold[0][a] + hold[1][a]
		d.Env.PutOperatorAsset(0, id, poolInfo(sdkmath.NewInt(total), sdkmath.LegacyNewDec(total)))
		for s := 0; s < 2; s++ {
			if hold[s][a] > 0 {
				d.Env.PutDelegation(s, 0, id, delegAmounts(sdkmath.LegacyNewDec(hold[s][a])))
				verifrt.Assume(d.Deleg.AppendStakerForOperator(d.Ctx, verifenv.OperatorBech[0], id, verifenv.StakerID(s)) == nil)
			}
		}
	}
	amt := sdkmath.LegacyNewDecFromInt(verifenv.SymAmount("tokens", 32))
	verifrt.Assume(amt.IsPositive())
	tokens := sdk.DecCoins{sdk.DecCoin{Denom: verifenv.Denom, Amount: amt}}
	val := verifenv.ValStub{Op: sdk.ValAddress(verifenv.OperatorAddr(0))}

	ctx2 := verifrt.ForkContext(d.Ctx)
	verifrt.MapOrder("permute")
	pool1, pool2 := &distrtypes.FeePool{}, &distrtypes.FeePool{}
	d.Distr.AllocateTokensToValidator(d.Ctx, val, tokens, pool1)
	d.Distr.AllocateTokensToValidator(ctx2, val, tokens, pool2)
	verifrt.MapOrder("insertion")
	verifrt.Assert(verifrt.SameState(ctx2, verifrt.Snapshot(d.Ctx)), "the allocation leaves the same stores whatever the iteration order of the maps it walks")
	verifrt.Assert(decAmount(pool1.CommunityPool).Equal(decAmount(pool2.CommunityPool)), "the community-pool remainder does not depend on map iteration order")
}
