//go:build verif

package c03

import "fmt"

func verifenvName(f string, a ...interface{}) string { return fmt.Sprintf(f, a...) }
