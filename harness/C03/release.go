//go:build verif

package c03

import (
	sdkmath "cosmossdk.io/math"
	abci "github.com/cometbft/cometbft/abci/types"

	"github.com/ExocoreNetwork/exocore/verifenv"
	"github.com/ExocoreNetwork/exocore/verifrt"
)

// VerifC03Release: delegation EndBlock at a symbolic height over a ledger holding n pending
// undelegation records with symbolic heights, nonces, amounts and hold counts.
// released <=> completion height == current height and no hold; held => re-queued for height+1;
// credited amount == ActualCompletedAmount; aggregates follow; nothing else changes.
func VerifC03Release() {
	ns := verifrt.Param("stakers", 2)
	no := verifrt.Param("operators", 2)
	n := verifrt.Param("records", 2)
	hb := verifrt.Param("height_bits", 8)
	nb := verifrt.Param("nonce_bits", 4)
	h := verifrt.I64("height")
	verifrt.Assume(verifrt.All(h >= 1, h < int64(1)<<uint(hb)))
	e := verifenv.NewLedgerEnvAt(h, no)
	e.RegisterAsset(verifenv.LSTAddrHex, 18, sdkmath.ZeroInt())
	l := verifenv.NewPlainLedger(e, ns, no, verifenv.LSTAssetID(), verifrt.Param("amount_bits", 120))
	recs := make([]*verifenv.Rec, 0, n)
	for i := 0; i < n; i++ {
		s := verifrt.Choice(verifenvName("rec%d_staker", i), ns)
		o := verifrt.Choice(verifenvName("rec%d_operator", i), no)
		r := l.AddRecord(verifenvName("rec%d", i), s, o, hb, nb)
		// distinct records: a later record with the same primary key would simply be the same record
		for _, p := range recs {
			verifrt.Assume(string(p.Key) != string(r.Key))
		}
		recs = append(recs, r)
	}
	// F3 (known finding when listed): records that share the secondary index keys overwrite each
	// other's index entries. The property is asserted for every other configuration.
	collide := false
	for i := 0; i < len(recs); i++ {
		for j := i + 1; j < len(recs); j++ {
			a, b := recs[i].Record, recs[j].Record
			if a.LzTxNonce == b.LzTxNonce && (a.CompleteBlockNumber == b.CompleteBlockNumber || a.StakerID == b.StakerID) {
				collide = true
			}
		}
	}
	for i, r := range recs {
		r.Hold = uint64(verifrt.Choice(verifenvName("rec%d_hold", i), 3))
		if r.Hold > 0 {
			e.SetHold(r.Key, r.Hold)
		}
	}
	if collide {
		// outside this harness's claim (finding F3); the C03 check carries the witness assertion
		if verifrt.Param("f3_witness", 1) == 1 {
			verifC03Collision(e, l, recs)
		}
		return
	}
	// the same collision (F3) arises one block later: a due record that is held is re-queued
	// under (height+1, nonce) and takes the pending-index key of a record with the same nonce
	// that completes at height+1
	requeueCollide := false
	for i := 0; i < len(recs); i++ {
		for j := 0; j < len(recs); j++ {
			a, b := recs[i], recs[j]
			if i != j && a.Record.LzTxNonce == b.Record.LzTxNonce && a.Record.CompleteBlockNumber == uint64(h) && a.Hold > 0 && b.Record.CompleteBlockNumber == uint64(h)+1 {
				requeueCollide = true
			}
		}
	}
	if requeueCollide {
		if verifrt.Param("f3_witness", 1) == 1 {
			e.Deleg.EndBlock(e.Ctx, abci.RequestEndBlock{})
			ok := true
			for _, r := range recs {
				if cur, live := e.RecordLive(r.Key); live {
					ok = ok && e.PendingIndexHas(cur.CompleteBlockNumber, cur.LzTxNonce, r.Key)
				}
			}
			verifrt.Assert(ok, "F3: a held record re-queued to the next block keeps every other record reachable through the pending index")
		}
		return
	}
	pre := l.Read()
	e.Deleg.EndBlock(e.Ctx, abci.RequestEndBlock{})
	post := l.Read()

	hh := uint64(h)
	expW := make([]sdkmath.Int, ns)
	expP := make([]sdkmath.Int, ns)
	for s := 0; s < ns; s++ {
		expW[s], expP[s] = pre.Withdrawable[s], pre.StPending[s]
	}
	expOP := make([]sdkmath.Int, no)
	for o := 0; o < no; o++ {
		expOP[o] = pre.PoolPending[o]
	}
	for _, r := range recs {
		cur, live := e.RecordLive(r.Key)
		due := r.Record.CompleteBlockNumber == hh
		switch {
		case due && r.Hold == 0:
			verifrt.Assert(!live, "a due, unheld record is released at the end of its block")
			verifrt.Assert(verifrt.All(!e.PendingIndexHas(r.Record.CompleteBlockNumber, r.Record.LzTxNonce, r.Key), !e.StakerIndexHas(r.Record.StakerID, r.Record.AssetID, r.Record.LzTxNonce, r.Key)), "released record removed from every index")
			expW[r.S] = expW[r.S].Add(r.Record.ActualCompletedAmount)
			expP[r.S] = expP[r.S].Sub(r.Record.Amount)
			expOP[r.O] = expOP[r.O].Sub(r.Record.Amount)
		case due && r.Hold > 0:
			verifrt.Assert(live, "a held record is not released")
			if live {
				verifrt.Assert(verifrt.All(cur.CompleteBlockNumber == hh+1, cur.Amount.Equal(r.Record.Amount), cur.ActualCompletedAmount.Equal(r.Record.ActualCompletedAmount), cur.StakerID == r.Record.StakerID), "a held record is re-queued intact for the next block")
				verifrt.Assert(verifrt.All(e.PendingIndexHas(hh+1, r.Record.LzTxNonce, r.Key), e.StakerIndexHas(r.Record.StakerID, r.Record.AssetID, r.Record.LzTxNonce, r.Key)), "re-queued record reachable through every index")
			}
		default:
			verifrt.Assert(live, "a record is never released before its completion height")
			if live {
				verifrt.Assert(verifrt.All(cur.CompleteBlockNumber == r.Record.CompleteBlockNumber, cur.Amount.Equal(r.Record.Amount), cur.ActualCompletedAmount.Equal(r.Record.ActualCompletedAmount)), "a record that is not due is untouched")
				verifrt.Assert(e.PendingIndexHas(r.Record.CompleteBlockNumber, r.Record.LzTxNonce, r.Key), "a record that is not due stays in the pending index")
			}
		}
	}
	for s := 0; s < ns; s++ {
		verifrt.Assert(post.Withdrawable[s].Equal(expW[s]), "staker credited exactly the recorded amounts of released records")
		verifrt.Assert(post.StPending[s].Equal(expP[s]), "staker pending figure drops by the released amounts")
	}
	for o := 0; o < no; o++ {
		verifrt.Assert(post.PoolPending[o].Equal(expOP[o]), "operator pending figure drops by the released amounts")
		verifrt.Assert(verifrt.All(post.PoolAmount[o].Equal(pre.PoolAmount[o]), post.PoolShare[o].Equal(pre.PoolShare[o])), "pools untouched by completion")
	}
	l.AssertInv(post, l.Assoc, "after EndBlock")
}

// verifC03Collision: witness harness branch for finding F3 (index-key collision).
func verifC03Collision(e *verifenv.Env, l *verifenv.Ledger, recs []*verifenv.Rec) {
	ok := true
	for _, r := range recs {
		ok = ok && e.PendingIndexHas(r.Record.CompleteBlockNumber, r.Record.LzTxNonce, r.Key) &&
			e.StakerIndexHas(r.Record.StakerID, r.Record.AssetID, r.Record.LzTxNonce, r.Key)
	}
	verifrt.Assert(ok, "F3: every stored record stays reachable through the staker and pending indexes")
}
