//go:build verif

package c03

import (
	sdkmath "cosmossdk.io/math"

	"github.com/ExocoreNetwork/exocore/verifenv"
	"github.com/ExocoreNetwork/exocore/verifrt"
)

// VerifC03NSTSlash: a negative native-restaking balance update is taken from the withdrawable
// balance first and then from the pending undelegations in index order; every record keeps its
// original amount and owes exactly what is left after the part of the decrease it absorbed.
func VerifC03NSTSlash() {
	n := verifrt.Param("records", 2)
	bits := verifrt.Param("amount_bits", 100)
	e := verifenv.NewLedgerEnv(100, 1)
	e.RegisterAsset("0xeeeeeeeeeeeeeeeeeeeeeeeeeeeeeeeeeeeeeeee", 18, sdkmath.ZeroInt())
	asset := verifenv.NSTAssetID()
	l := verifenv.NewPlainLedger(e, 1, 1, asset, bits)
	recs := make([]*verifenv.Rec, 0, n)
	for i := 0; i < n; i++ {
		// nonces 1,2,.. so that the index order is the creation order
		r := l.AddRecordWithNonce(verifenvName("rec%d", i), 0, 0, 8, uint64(i+1))
		recs = append(recs, r)
	}
	pre := l.Read()
	dec := verifenv.SymAmount("decrease", bits)
	verifrt.Assume(dec.IsPositive())
	// deposits cover everything that can be slashed here (withdrawable + what the records still owe)
	owed := sdkmath.ZeroInt()
	for _, r := range recs {
		owed = owed.Add(r.Record.ActualCompletedAmount)
	}
	verifrt.Assume(pre.Deposit[0].GTE(pre.Withdrawable[0].Add(owed)))
	err := e.Deleg.UpdateNSTBalance(e.Ctx, verifenv.StakerID(0), asset, dec.Neg())
	verifrt.Assert(err == nil, "a balance decrease within the deposit is applied")
	if err != nil {
		return
	}
	post := l.Read()
	fromW := verifrt.Ite(dec.GT(pre.Withdrawable[0]), pre.Withdrawable[0], dec)
	verifrt.Assert(post.Withdrawable[0].Equal(pre.Withdrawable[0].Sub(fromW)), "the withdrawable balance absorbs the decrease first")
	rest := dec.Sub(fromW)
	taken := fromW
	for _, r := range recs {
		cut := verifrt.Ite(rest.GT(r.Record.ActualCompletedAmount), r.Record.ActualCompletedAmount, rest)
		rest = rest.Sub(cut)
		taken = taken.Add(cut)
		cur, live := e.RecordLive(r.Key)
		verifrt.Assert(live, "a balance decrease never deletes a pending record")
		if live {
			verifrt.Assert(cur.Amount.Equal(r.Record.Amount), "the original amount of a record never changes")
			verifrt.Assert(cur.ActualCompletedAmount.Equal(r.Record.ActualCompletedAmount.Sub(cut)), "each pending record owes exactly what is left after the slashing applied to it")
		}
	}
	verifrt.Assert(post.Deposit[0].Equal(pre.Deposit[0].Sub(taken)), "the total deposit drops by exactly what was taken from the withdrawable balance and the records")
	verifrt.Assert(post.StPending[0].Equal(pre.StPending[0]), "the pending figure (sum of original amounts) is unchanged by slashing")
}
