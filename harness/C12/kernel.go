//go:build verif

package common

import (
	"math/big"

	"github.com/ExocoreNetwork/exocore/verifrt"
)

// VerifC12Threshold: ExceedsThreshold(p,T) <=> 3p > 2T for all integers.
func VerifC12Threshold() {
	p := verifrt.BigInt("power")
	t := verifrt.BigInt("total")
	got := ExceedsThreshold(p, t)
	lhs := new(big.Int).Mul(p, big.NewInt(3))
	rhs := new(big.Int).Mul(t, big.NewInt(2))
	verifrt.Assert(got == (lhs.Cmp(rhs) > 0), "threshold is the strict comparison 3*power > 2*total")
	if p.Sign() >= 0 && t.Sign() > 0 && got {
		// strictly more than two thirds
		verifrt.Assert(new(big.Int).Mul(p, big.NewInt(3)).Cmp(new(big.Int).Mul(t, big.NewInt(2))) > 0, "exceeding means strictly more than 2/3")
	}
	verifrt.Assert(verifrt.All(ThresholdA == 2, ThresholdB == 3), "configured fraction is 2/3")
}

// VerifC12Median: Median of n prices is the middle element (odd n) or the mean of the two
// middle elements (even n) of the sorted list.
func VerifC12Median() {
	n := verifrt.Param("n", 3)
	l := make(BigIntList, 0, n)
	orig := make([]*big.Int, 0, n)
	for i := 0; i < n; i++ {
		v := verifrt.BigInt(nameIdx("v", i))
		verifrt.Assume(v.Sign() >= 0)
		l = append(l, v)
		orig = append(orig, new(big.Int).Set(v))
	}
	m := l.Median()
	le, ge := 0, 0
	for _, v := range orig {
		if v.Cmp(m) <= 0 {
			le++
		}
		if v.Cmp(m) >= 0 {
			ge++
		}
	}
	verifrt.Assert(verifrt.All(2*le >= n, 2*ge >= n), "at least half of the values lie on each side of the median")
	if n%2 == 1 {
		found := false
		for _, v := range orig {
			if v.Cmp(m) == 0 {
				found = true
			}
		}
		verifrt.Assert(found, "for an odd count the median is one of the reported values")
	}
}

func nameIdx(p string, i int) string { return p + string(rune('0'+i)) }
