//go:build verif

package aggregator

import (
	"fmt"
	"math/big"

	sdk "github.com/cosmos/cosmos-sdk/types"

	"github.com/ExocoreNetwork/exocore/x/oracle/keeper/common"
	"github.com/ExocoreNetwork/exocore/x/oracle/types"

	"github.com/ExocoreNetwork/exocore/verifrt"
)

// validators: account-address bech32 (message creator) and the consensus-address bech32 of the
// same bytes (key of the power map)
var verifValAcc = []string{
	"exo1qyqszqgpqyqszqgpqyqszqgpqyqszqgp22qtfv",
	"exo1qgpqyqszqgpqyqszqgpqyqszqgpqyqszmwxwz6",
	"exo1qvpsxqcrqvpsxqcrqvpsxqcrqvpsxqcr6780gm",
	"exo15xs6rgdp5xs6rgdp5xs6rgdp5xs6rgdpmtf4hl",
}

func verifCons(i int) string {
	a, _ := sdk.AccAddressFromBech32(verifValAcc[i])
	return sdk.ConsAddress(a).String()
}

var verifPrices = []string{"100", "200", "300"}
var verifDetIDs = []string{"1", "2"}

func verifAgc(nv int, powers []*big.Int) *AggregatorContext {
	p := types.DefaultParams()
	agc := NewAggregatorContext()
	agc.SetParams(&p)
	vp := map[string]*big.Int{}
	for i := 0; i < nv; i++ {
		vp[verifCons(i)] = powers[i]
	}
	agc.SetValidatorPowers(vp)
	agc.rounds[1] = &roundInfo{basedBlock: 1000000, nextRoundID: 1, status: roundStatusOpen}
	return agc
}

// VerifC12Round: k price submissions for one feeder round from validators with arbitrary powers.
// A final price is produced exactly when the reporters hold more than 2/3 of the power and more
// than 2/3 agree on one (source round, price); it equals that price (the median of the reporters'
// values); it is produced at most once and later submissions are ignored.
func VerifC12Round() {
	nv := verifrt.Param("validators", 3)
	k := verifrt.Param("submissions", 3)
	powers := make([]*big.Int, nv)
	total := big.NewInt(0)
	for i := range powers {
		powers[i] = verifrt.BigInt(fmt.Sprintf("power%d", i))
		verifrt.Assume(verifrt.All(powers[i].Sign() > 0, powers[i].Cmp(new(big.Int).Lsh(big.NewInt(1), 80)) < 0))
		total = new(big.Int).Add(total, powers[i])
	}
	agc := verifAgc(nv, powers)
	ctx := verifrt.NewContext(1000001, 1700000000, "exocoretestnet_233-1")
	reported := make([]bool, nv)
	reportPower := big.NewInt(0)
	// agreeing power per (detID, price)
	agree := map[string]*big.Int{}
	final := ""
	for s := 0; s < k; s++ {
		v := s % nv
		if verifrt.Param("free_order", 0) == 1 {
			v = verifrt.Choice(fmt.Sprintf("sub%d_validator", s), nv)
		}
		d := verifDetIDs[verifrt.Choice(fmt.Sprintf("sub%d_detid", s), len(verifDetIDs))]
		pr := verifPrices[verifrt.Choice(fmt.Sprintf("sub%d_price", s), len(verifPrices))]
		msg := &types.MsgCreatePrice{Creator: verifValAcc[v], FeederID: 1, BasedBlock: 1000000, Nonce: int32(s/nv + 1),
			Prices: []*types.PriceSource{{SourceID: 1, Prices: []*types.PriceTimeDetID{{Price: pr, Decimal: 18, Timestamp: "2024-01-01 00:00:00", DetID: d}}}}}
		item, _, err := agc.NewCreatePrice(ctx, msg)
		if final != "" {
			verifrt.Assert(item == nil && err != nil, "after the round has its price, further submissions are ignored")
			continue
		}
		// reference bookkeeping (first report of a validator for a source round counts)
		key := d + "/" + pr
		if !reported[v] {
			reported[v] = true
			reportPower = new(big.Int).Add(reportPower, powers[v])
		}
		if verifrt.Param("free_order", 0) == 0 || true {
			if agree[key] == nil {
				agree[key] = big.NewInt(0)
			}
			agree[key] = new(big.Int).Add(agree[key], powers[v])
		}
		enoughReporters := new(big.Int).Mul(reportPower, big.NewInt(3)).Cmp(new(big.Int).Mul(total, big.NewInt(2))) > 0
		agreed := new(big.Int).Mul(agree[key], big.NewInt(3)).Cmp(new(big.Int).Mul(total, big.NewInt(2))) > 0
		if item != nil {
			verifrt.Assert(enoughReporters, "a final price needs reporters holding more than 2/3 of the voting power")
			verifrt.Assert(agreed, "a final price needs more than 2/3 of the power agreeing on the same source round and value")
			verifrt.Assert(item.PriceTR.Price == pr, "the final price is the agreed value (median of the reporters' values)")
			verifrt.Assert(item.PriceTR.RoundID == 1 && item.TokenID == 1, "recorded for the open round of the feeder's token")
			final = pr
		} else {
			verifrt.Assert(!(enoughReporters && agreed), "once both super-majorities are reached the price is produced in the same step")
		}
	}
}

// VerifC12ValidatorSet: a validator-set update replaces the power table: exactly the new
// validators with their powers, and the total is their sum (no departed validator keeps power).
func VerifC12ValidatorSet() {
	agc := NewAggregatorContext()
	old := map[string]*big.Int{}
	for i := 0; i < 4; i++ {
		old[verifCons(i)] = verifrt.BigInt(fmt.Sprintf("old%d", i))
	}
	agc.SetValidatorPowers(old)
	nw := map[string]*big.Int{}
	sum := big.NewInt(0)
	keep := 0
	for i := 0; i < 4; i++ {
		if verifrt.Bool(fmt.Sprintf("keep%d", i)) {
			p := verifrt.BigInt(fmt.Sprintf("new%d", i))
			nw[verifCons(i)] = p
			sum = new(big.Int).Add(sum, p)
			keep++
		}
	}
	agc.SetValidatorPowers(nw)
	got := agc.GetValidatorPowers()
	verifrt.Assert(len(got) == keep, "exactly the validators of the new set have power")
	ok := true
	for i := 0; i < 4; i++ {
		p, in := got[verifCons(i)]
		want, should := nw[verifCons(i)]
		ok = ok && in == should
		if in && should {
			ok = ok && p.Cmp(want) == 0
		}
	}
	verifrt.Assert(ok, "each validator has exactly its new power; departed validators have none")
	verifrt.Assert(agc.totalPower.Cmp(sum) == 0, "total power is the sum over the new set")
	verifrt.Assert(len(agc.GetValidators()) == keep, "the validator list has no departed validator")
}

var _ = common.MaxNonce
