//go:build verif

package keeper

import (
	"github.com/ExocoreNetwork/exocore/x/oracle/keeper/aggregator"
	"github.com/ExocoreNetwork/exocore/x/oracle/types"

	"github.com/ExocoreNetwork/exocore/verifrt"
)

// VerifC12Retention: AppendPriceTR at an arbitrary round number N with the last M rounds stored
// (M = MaxSizePrices): the new round is stored under N, the next round id becomes N+1, exactly the
// round N-M is dropped, so never more than M rounds are retained; an append with another round
// number is refused and changes nothing.
func VerifC12Retention() {
	k := Keeper{cdc: verifrt.Codec(), storeKey: verifrt.StoreKey(types.StoreKey)}
	ctx := verifrt.NewContext(10, 1700000000, "exocoretestnet_233-1")
	m := uint64(verifrt.Param("max_size_prices", 3))
	p := types.DefaultParams()
	p.MaxSizePrices = int32(m)
	k.SetParams(ctx, p)
	agc = aggregator.NewAggregatorContext()
	agc.SetParams(&p)
	n := verifrt.U64("next_round_id")
	verifrt.Assume(verifrt.All(n >= 1, n < 1<<32))
	st := k.getPriceTRStore(ctx, 1)
	if n > 1 {
		st.Set(types.PricesNextRoundIDKey, types.Uint64Bytes(n))
	}
	// the last min(M, N-1) rounds are stored
	for d := uint64(1); d <= m; d++ {
		if n > d {
			st.Set(types.PricesRoundKey(n-d), k.cdc.MustMarshal(&types.PriceTimeRound{Price: "7", Decimal: 18, Timestamp: "-", RoundID: n - d}))
		}
	}
	id := n
	wrong := verifrt.Bool("wrong_round_id")
	if wrong {
		id = verifrt.U64("submitted_round_id")
		verifrt.Assume(id != n)
	}
	snap := verifrt.Snapshot(ctx)
	ok := k.AppendPriceTR(ctx, 1, types.PriceTimeRound{Price: "9", Decimal: 18, Timestamp: "-", RoundID: id})
	if wrong {
		verifrt.Assert(!ok, "a price for another round number than the next one is refused")
		verifrt.Assert(verifrt.SameState(ctx, snap), "a refused price changes nothing")
		agc = nil
		return
	}
	verifrt.Assert(ok, "the price for the next round number is accepted")
	verifrt.Assert(k.GetNextRoundID(ctx, 1) == n+1, "round numbers advance by exactly one")
	got, found := k.GetPriceTRRoundID(ctx, 1, n)
	verifrt.Assert(found && got.Price == "9", "the new round is stored under its number")
	for d := uint64(1); d <= m; d++ {
		if n > d {
			_, f := k.GetPriceTRRoundID(ctx, 1, n-d)
			verifrt.Assert(f == (d < m), "exactly the round that falls out of the retention window is dropped: never more than MaxSizePrices rounds are kept")
		}
	}
	agc = nil
}
