//go:build verif

package oracle

import (
	abci "github.com/cometbft/cometbft/abci/types"
	"github.com/cosmos/cosmos-sdk/codec"
	sdk "github.com/cosmos/cosmos-sdk/types"
	paramtypes "github.com/cosmos/cosmos-sdk/x/params/types"

	dogfoodtypes "github.com/ExocoreNetwork/exocore/x/dogfood/types"
	"github.com/ExocoreNetwork/exocore/x/oracle/keeper"
	"github.com/ExocoreNetwork/exocore/x/oracle/types"

	"github.com/ExocoreNetwork/exocore/verifrt"
)

// VerifC13Admission: one price transaction of every shape, delivered in a block of an open round
// (ante nonce check, then the message server in a cache context that is written only on
// success), possibly after the same validator has already reported in this round:
//   - it is admitted exactly when the sender is a validator and the nonce is its next one within
//     the per-round limit; a transaction that is not admitted changes nothing at all;
//   - it is counted exactly when, in addition, base block, source, decimals and timestamp are
//     right and it reports a source round the validator has not reported yet; a transaction that
//     is admitted but not counted changes only that validator's nonce.
func VerifC13Admission() {
	const nv = 3
	start := int64(20)
	ctx := verifrt.NewContext(start, 1700000000, "exocoretestnet_233-1")
	verifInitValidators()
	d := &verifDogfood{}
	for v := 0; v < nv; v++ {
		d.vals = append(d.vals, dogfoodtypes.ExocoreValidator{Address: verifValKeys[v].ToConsAddr(), Power: 1})
	}
	ps := paramtypes.NewSubspace(verifrt.Codec(), codec.NewLegacyAmino(), verifrt.StoreKey("params"), verifrt.StoreKey("tparams"), types.ModuleName)
	k := keeper.NewKeeper(verifrt.Codec(), verifrt.StoreKey(types.StoreKey), verifrt.StoreKey(types.MemStoreKey), ps, d, nil, nil, verifAuthority)
	ctx = verifrt.RemountContext(ctx)
	p := types.DefaultParams()
	p.TokenFeeders[1].StartBaseBlock = uint64(start)
	p.TokenFeeders[1].Interval = 6
	verifrt.Assume(p.Validate() == nil)
	k.SetParams(ctx, p)
	am := AppModule{keeper: k}
	ms := keeper.NewMsgServerImpl(k)
	keeper.ResetAggregatorContext()
	keeper.ResetCache()
	keeper.ResetAggregatorContextCheckTx()
	keeper.ResetUpdatedFeederIDs()
	_ = keeper.GetCaches()
	_ = keeper.GetAggregatorContext(ctx, k)
	am.EndBlock(ctx, abci.RequestEndBlock{}) // block 20 ends: the round based on block 20 opens
	ctx = ctx.WithBlockHeight(start + 1)
	mk := func(creator string, feeder, based uint64, nonce int32, source uint64, decimal int32, ts, det string) *types.MsgCreatePrice {
		return &types.MsgCreatePrice{Creator: creator, FeederID: feeder, BasedBlock: based, Nonce: nonce,
			Prices: []*types.PriceSource{{SourceID: source, Prices: []*types.PriceTimeDetID{{Price: "100", Decimal: decimal, Timestamp: ts, DetID: det}}}}}
	}
	const okTS = "2023-11-14 22:13:20" // the block time
	// optionally validator 0 has already reported source round "1" with nonce 1
	earlier := verifrt.Bool("validator0_reported_before")
	if earlier {
		m0 := mk(verifValAcc[0], 1, uint64(start), 1, 1, 18, okTS, "1")
		_, err := k.CheckAndIncreaseNonce(ctx, verifCons(0), 1, 1)
		verifrt.Assume(err == nil)
		_, err = ms.CreatePrice(sdk.WrapSDKContext(ctx), m0)
		verifrt.Assume(err == nil)
	}
	stored := uint32(0)
	if earlier {
		stored = 1
	}
	// the transaction under test
	sender := verifrt.Choice("sender", 2) // 0: validator 0, 1: an account that is not a validator
	creator := verifValAcc[0]
	cons := verifCons(0)
	if sender == 1 {
		creator = "exo1qyqszqgpqyqszqgpqyqszqgpqyqszqgp22qtfv"
		a, _ := sdk.AccAddressFromBech32(creator)
		cons = sdk.ConsAddress(a).String()
	}
	nonce := int32(verifrt.Choice("nonce", 5))                                                // 0..4 (limit is 3)
	based := uint64(start) + uint64(verifrt.Choice("based_block_offset", 2))                  // right, or one later
	source := []uint64{1, 9}[verifrt.Choice("source", 2)]                                     // valid, unknown
	decimal := []int32{18, 8}[verifrt.Choice("decimal", 2)]                                   // the token's, another
	ts := []string{okTS, "2023-11-14 22:13:30", "not a time"}[verifrt.Choice("timestamp", 3)] // now, 10 s ahead, malformed
	det := []string{"1", "2", ""}[verifrt.Choice("source_round", 3)]
	msg := mk(creator, 1, based, nonce, source, decimal, ts, det)

	snap := verifrt.Snapshot(ctx)
	expectNonce := verifrt.ForkContext(ctx)
	_, anteErr := k.CheckAndIncreaseNonce(ctx, cons, msg.FeederID, uint32(msg.Nonce))
	admitted := anteErr == nil
	shouldAdmit := verifrt.All(sender == 0, uint32(nonce) == stored+1, nonce <= 3)
	verifrt.Assert(admitted == shouldAdmit, "admitted exactly when a current validator sends its next consecutive nonce within the per-round limit")
	if !admitted {
		verifrt.Assert(verifrt.SameState(ctx, snap), "a transaction that is not admitted changes nothing at all")
		return
	}
	cctx, write := ctx.CacheContext()
	// a panic inside message execution is recovered by baseapp and fails the transaction
	var err error
	panicked := verifrt.Try(func() { _, err = ms.CreatePrice(sdk.WrapSDKContext(cctx), msg) })
	if panicked {
		verifrt.Cover("message execution panicked (recovered by baseapp: unknown source id indexes past the source table)")
	}
	counted := verifrt.All(!panicked, err == nil)
	if counted {
		write()
	}
	newRound := verifrt.Any(det == "2", verifrt.All(det == "1", !earlier))
	shouldCount := verifrt.All(based == uint64(start), source == 1, decimal == 18, ts == okTS, newRound)
	verifrt.Assert(counted == shouldCount, "counted exactly when base block, source, decimals and timestamp are right and the source round is new for this validator")
	if !counted {
		// reference state: the pre-state with only this validator's nonce advanced
		_, e2 := k.CheckAndIncreaseNonce(expectNonce, cons, msg.FeederID, uint32(msg.Nonce))
		verifrt.Assume(e2 == nil)
		verifrt.Assert(verifrt.SameState(ctx, verifrt.Snapshot(expectNonce)), "a transaction that is admitted but not counted changes only that validator's nonce")
	} else {
		verifrt.Cover("a transaction was counted")
	}
}
