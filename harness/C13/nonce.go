//go:build verif

package keeper

import (
	"fmt"

	"github.com/ExocoreNetwork/exocore/x/oracle/keeper/common"
	"github.com/ExocoreNetwork/exocore/x/oracle/types"

	"github.com/ExocoreNetwork/exocore/verifrt"
)

const (
	verifVal0 = "exovalcons1qyqszqgpqyqszqgpqyqszqgpqyqszqgpya0gv2"
	verifVal1 = "exovalcons1qgpqyqszqgpqyqszqgpqyqszqgpqyqsz5tdmre"
)

func verifKeeper() Keeper {
	return Keeper{cdc: verifrt.Codec(), storeKey: verifrt.StoreKey(types.StoreKey)}
}

// VerifC13Nonce: k consecutive CheckAndIncreaseNonce calls with arbitrary nonces for one
// validator and feeder, from an arbitrary stored nonce state: a call is admitted iff the nonce is
// the stored value + 1 and at most MaxNonce; a rejected call changes nothing; a validator (or
// feeder) without an entry gets nothing admitted; at most MaxNonce admissions per round in total.
func VerifC13Nonce() {
	k := verifKeeper()
	ctx := verifrt.NewContext(10, 1700000000, "exocoretestnet_233-1")
	calls := verifrt.Param("calls", 4)
	const feeder = uint64(1)
	// stored state: 0 no entry for the validator, 1 entry without the feeder, 2 entry with the feeder
	kind := verifrt.Choice("stored", 3)
	cur := verifrt.U32("stored_nonce")
	verifrt.Assume(cur <= uint32(common.MaxNonce))
	other := verifrt.U32("other_feeder_nonce")
	switch kind {
	case 1:
		k.SetNonce(ctx, types.ValidatorNonce{Validator: verifVal0, NonceList: []*types.Nonce{{FeederID: 2, Value: other}}})
	case 2:
		k.SetNonce(ctx, types.ValidatorNonce{Validator: verifVal0, NonceList: []*types.Nonce{{FeederID: 2, Value: other}, {FeederID: feeder, Value: cur}}})
	}
	// another validator's entry must never be touched
	bystander := verifrt.U32("bystander_nonce")
	k.SetNonce(ctx, types.ValidatorNonce{Validator: verifVal1, NonceList: []*types.Nonce{{FeederID: feeder, Value: bystander}}})
	admitted := 0
	expect := cur
	for i := 0; i < calls; i++ {
		n := verifrt.U32(fmt.Sprintf("nonce%d", i))
		_, err := k.CheckAndIncreaseNonce(ctx, verifVal0, feeder, n)
		should := verifrt.All(kind == 2, n == expect+1, n <= uint32(common.MaxNonce))
		verifrt.Assert((err == nil) == should, "admitted exactly when the nonce is the stored value + 1 and within the per-round limit")
		if err == nil {
			admitted++
			expect = n
		}
		got, found := k.GetNonce(ctx, verifVal0)
		if kind == 2 {
			ok := found && len(got.NonceList) == 2 && got.NonceList[1].FeederID == feeder && got.NonceList[1].Value == expect &&
				got.NonceList[0].FeederID == 2 && got.NonceList[0].Value == other
			verifrt.Assert(ok, "the stored nonce is the last admitted one; other feeders untouched; rejected calls change nothing")
		} else {
			verifrt.Assert(found == (kind == 1), "a rejected submission creates no entry")
		}
	}
	verifrt.Assert(uint32(admitted)+cur <= uint32(common.MaxNonce) || kind != 2, "at most MaxNonce admissions per validator, feeder and round")
	b, found := k.GetNonce(ctx, verifVal1)
	verifrt.Assert(found && len(b.NonceList) == 1 && b.NonceList[0].Value == bystander, "other validators' nonces are untouched")
}

// VerifC13NonceReset: opening/closing a round: AddZeroNonceItemWithFeederIDForValidators and
// RemoveNonceWithFeederIDForValidators touch exactly the given feeder of the given validators.
func VerifC13NonceReset() {
	k := verifKeeper()
	ctx := verifrt.NewContext(10, 1700000000, "exocoretestnet_233-1")
	v0 := verifrt.U32("v0_f1")
	v0b := verifrt.U32("v0_f2")
	k.SetNonce(ctx, types.ValidatorNonce{Validator: verifVal0, NonceList: []*types.Nonce{{FeederID: 1, Value: v0}, {FeederID: 2, Value: v0b}}})
	k.AddZeroNonceItemWithFeederIDForValidators(ctx, 3, []string{verifVal0, verifVal1})
	a, fa := k.GetNonce(ctx, verifVal0)
	verifrt.Assert(fa && len(a.NonceList) == 3 && a.NonceList[0].Value == v0 && a.NonceList[1].Value == v0b && a.NonceList[2].FeederID == 3 && a.NonceList[2].Value == 0, "opening a round adds a zero nonce for that feeder only")
	b, fb := k.GetNonce(ctx, verifVal1)
	verifrt.Assert(fb && len(b.NonceList) == 1 && b.NonceList[0].FeederID == 3 && b.NonceList[0].Value == 0, "a validator without an entry gets one")
	k.AddZeroNonceItemWithFeederIDForValidators(ctx, 1, []string{verifVal0})
	a, _ = k.GetNonce(ctx, verifVal0)
	verifrt.Assert(len(a.NonceList) == 3 && a.NonceList[0].Value == v0, "re-opening does not reset a nonce that is already present")
	k.RemoveNonceWithFeederIDForValidators(ctx, 1, []string{verifVal0, verifVal1})
	a, fa = k.GetNonce(ctx, verifVal0)
	verifrt.Assert(fa && len(a.NonceList) == 2 && a.NonceList[0].FeederID == 2 && a.NonceList[0].Value == v0b && a.NonceList[1].FeederID == 3, "closing a round removes exactly that feeder's nonce, order of the others preserved")
	k.RemoveNonceWithFeederIDForValidators(ctx, 3, []string{verifVal1})
	_, fb = k.GetNonce(ctx, verifVal1)
	verifrt.Assert(!fb, "a validator's entry disappears with its last feeder")
}
