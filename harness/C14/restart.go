//go:build verif

package oracle

import (
	"fmt"

	sdkmath "cosmossdk.io/math"
	abci "github.com/cometbft/cometbft/abci/types"
	"github.com/cosmos/cosmos-sdk/codec"
	sdk "github.com/cosmos/cosmos-sdk/types"
	paramtypes "github.com/cosmos/cosmos-sdk/x/params/types"
	stakingtypes "github.com/cosmos/cosmos-sdk/x/staking/types"

	keytypes "github.com/ExocoreNetwork/exocore/types/keys"
	dogfoodtypes "github.com/ExocoreNetwork/exocore/x/dogfood/types"
	"github.com/ExocoreNetwork/exocore/x/oracle/keeper"
	"github.com/ExocoreNetwork/exocore/x/oracle/types"

	"github.com/ExocoreNetwork/exocore/verifrt"
)

func nm(f string, a ...interface{}) string { return fmt.Sprintf(f, a...) }

const verifAuthority = "exo1nxvenxvenxvenxvenxvenxvenxvenxve26l8hm"

// validators: consensus keys; the consensus address (first 20 bytes of sha256(key)) doubles as
// the account address that signs the price transactions, as in the repo's own oracle tests
var verifKeyB64 = []string{
	"MTExMTExMTExMTExMTExMTExMTExMTExMTExMTExMTE=",
	"MjIyMjIyMjIyMjIyMjIyMjIyMjIyMjIyMjIyMjIyMjI=",
	"MzMzMzMzMzMzMzMzMzMzMzMzMzMzMzMzMzMzMzMzMzM=",
}
var verifValAcc []string
var verifValKeys []keytypes.WrappedConsKey

func verifInitValidators() {
	verifValAcc, verifValKeys = nil, nil
	for _, b := range verifKeyB64 {
		k := keytypes.NewWrappedConsKeyFromJSON(`{"@type":"/cosmos.crypto.ed25519.PubKey","key":"` + b + `"}`)
		verifValKeys = append(verifValKeys, k)
		verifValAcc = append(verifValAcc, sdk.AccAddress(k.ToConsAddr()).String())
	}
}

// verifDogfood stands in for the dogfood keeper: a validator set that may change once, in the
// EndBlock of block updateAt (dogfood's EndBlock runs before the oracle's): that block's update
// list carries the change and from the next block on the stored set is the new one.
type verifDogfood struct {
	vals     []dogfoodtypes.ExocoreValidator
	updateAt int64 // 0: never
	newVals  []dogfoodtypes.ExocoreValidator
	updates  []abci.ValidatorUpdate
}

func (d *verifDogfood) GetLastTotalPower(ctx sdk.Context) sdkmath.Int {
	t := sdkmath.ZeroInt()
	for _, v := range d.GetAllExocoreValidators(ctx) {
		t = t.Add(sdkmath.NewInt(v.Power))
	}
	return t
}
func (d *verifDogfood) IterateBondedValidatorsByPower(sdk.Context, func(int64, stakingtypes.ValidatorI) bool) {
}
func (d *verifDogfood) GetValidatorUpdates(ctx sdk.Context) []abci.ValidatorUpdate {
	if d.updateAt != 0 && ctx.BlockHeight() == d.updateAt {
		return d.updates
	}
	return nil
}
func (d *verifDogfood) GetValidatorByConsAddr(sdk.Context, sdk.ConsAddress) (stakingtypes.Validator, bool) {
	return stakingtypes.Validator{}, false
}
func (d *verifDogfood) GetAllExocoreValidators(ctx sdk.Context) []dogfoodtypes.ExocoreValidator {
	if d.updateAt != 0 && ctx.BlockHeight() > d.updateAt {
		return d.newVals
	}
	return d.vals
}

var verifPrices = []string{"100", "200"}

type verifBlockPlan struct {
	send  []bool // per validator: submits a price in this block
	price []int
	msgs  []*types.MsgCreatePrice // filled in when the continuous instance runs the block
}

func verifCons(v int) string {
	a, _ := sdk.AccAddressFromBech32(verifValAcc[v])
	return sdk.ConsAddress(a).String()
}

// the nonce an honest validator uses next: the stored one + 1
func verifNextNonce(ctx sdk.Context, k keeper.Keeper, v int) int32 {
	n, found := k.GetNonce(ctx, verifCons(v))
	if found {
		for _, it := range n.NonceList {
			if it.FeederID == 1 {
				return int32(it.Value) + 1
			}
		}
	}
	return 1
}

// verifRunBlock executes one block on the instance whose in-memory state currently lives in the
// keeper package singletons: each planned price transaction goes through the ante nonce check
// (whose writes persist) and, in a cache context that is written only on success, the message
// server; then the module's EndBlock runs. It returns which transactions were accepted.
func verifRunBlock(ctx sdk.Context, k keeper.Keeper, am AppModule, ms types.MsgServer, h int64, plan *verifBlockPlan, based uint64, build bool) []bool {
	ctx = ctx.WithBlockHeight(h)
	ok := make([]bool, len(plan.send))
	for v := range plan.send {
		if !plan.send[v] {
			continue
		}
		if build {
			plan.msgs[v] = &types.MsgCreatePrice{Creator: verifValAcc[v], FeederID: 1, BasedBlock: based, Nonce: verifNextNonce(ctx, k, v),
				Prices: []*types.PriceSource{{SourceID: 1, Prices: []*types.PriceTimeDetID{{Price: verifPrices[plan.price[v]], Decimal: 18, Timestamp: "2023-11-14 22:13:20", DetID: "1"}}}}}
		}
		msg := plan.msgs[v]
		if _, err := k.CheckAndIncreaseNonce(ctx, verifCons(v), msg.FeederID, uint32(msg.Nonce)); err != nil {
			continue
		}
		cctx, write := ctx.CacheContext()
		_, err := ms.CreatePrice(sdk.WrapSDKContext(cctx), msg)
		if err == nil {
			write()
			ok[v] = true
		}
	}
	am.EndBlock(ctx, abci.RequestEndBlock{})
	return ok
}

func verifSameBools(a, b []bool) bool {
	r := true
	for i := range a {
		r = verifrt.All(r, a[i] == b[i])
	}
	return r
}

// VerifC14Restart: a continuous instance runs `history` blocks from its first start, then
// `after` further blocks. A second instance is started from the store committed at the end of the
// history (its in-memory state rebuilt by recacheAggregatorContext) and executes the same
// further blocks. Every transaction result and the whole store after each block must be equal.
func VerifC14Restart() {
	history := verifrt.Param("history", 3)
	after := verifrt.Param("after", 2)
	nPrices := verifrt.Param("prices", 2)
	const nv = 3
	start := int64(verifrt.Param("start_height", 20))
	ctx := verifrt.NewContext(start, 1700000000, "exocoretestnet_233-1")
	verifInitValidators()
	d := &verifDogfood{}
	for v := 0; v < nv; v++ {
		d.vals = append(d.vals, dogfoodtypes.ExocoreValidator{Address: verifValKeys[v].ToConsAddr(), Power: 1})
	}
	// optionally the validator set changes once, in some block of the run: validator 0 doubles
	// its power, or validator 2 leaves
	if verifrt.Param("validator_update", 0) == 1 {
		if ub := verifrt.Choice("validator_update_block", history+after+1); ub > 0 {
			d.updateAt = start + int64(ub) - 1
			if verifrt.Choice("validator_update_kind", 2) == 0 {
				d.newVals = []dogfoodtypes.ExocoreValidator{{Address: d.vals[0].Address, Power: 2}, d.vals[1], d.vals[2]}
				d.updates = []abci.ValidatorUpdate{{PubKey: *verifValKeys[0].ToTmProtoKey(), Power: 2}}
			} else {
				d.newVals = []dogfoodtypes.ExocoreValidator{d.vals[0], d.vals[1]}
				d.updates = []abci.ValidatorUpdate{{PubKey: *verifValKeys[2].ToTmProtoKey(), Power: 0}}
			}
		}
	}
	ps := paramtypes.NewSubspace(verifrt.Codec(), codec.NewLegacyAmino(), verifrt.StoreKey("params"), verifrt.StoreKey("tparams"), types.ModuleName)
	k := keeper.NewKeeper(verifrt.Codec(), verifrt.StoreKey(types.StoreKey), verifrt.StoreKey(types.MemStoreKey), ps, d, nil, nil, verifAuthority)
	ctx = verifrt.RemountContext(ctx)
	// the feeder's first round starts `offset` blocks after the first block
	p := types.DefaultParams()
	offset := verifrt.Choice("first_round_offset", 3)
	p.TokenFeeders[1].StartBaseBlock = uint64(start) + uint64(offset)
	p.TokenFeeders[1].Interval = uint64(verifrt.Param("interval", 4))
	// a submission window of MaxNonce blocks; parameter validation demands interval >= 2*MaxNonce
	p.MaxNonce = int32(verifrt.Param("max_nonce", 2))
	// the feeder may be scheduled to stop: never, right after its first round's window, or after
	// its second round's window (validation forbids an end block inside a window)
	if verifrt.Param("with_end_block", 1) == 1 {
		switch verifrt.Choice("feeder_end_block", 3) {
		case 1:
			p.TokenFeeders[1].EndBlock = p.TokenFeeders[1].StartBaseBlock + uint64(p.MaxNonce)
		case 2:
			p.TokenFeeders[1].EndBlock = p.TokenFeeders[1].StartBaseBlock + p.TokenFeeders[1].Interval + uint64(p.MaxNonce) + 1
		}
	}
	verifrt.Assume(p.Validate() == nil)
	k.SetParams(ctx, p)
	am := AppModule{keeper: k}
	ms := keeper.NewMsgServerImpl(k)

	// plans for all blocks
	total := history + after
	plans := make([]verifBlockPlan, total)
	for b := range plans {
		plans[b] = verifBlockPlan{send: make([]bool, nv), price: make([]int, nv), msgs: make([]*types.MsgCreatePrice, nv)}
		for v := 0; v < nv; v++ {
			plans[b].send[v] = verifrt.Bool(nm("block%d_val%d_sends", b, v))
			if plans[b].send[v] && nPrices > 1 {
				plans[b].price[v] = verifrt.Choice(nm("block%d_val%d_price", b, v), nPrices)
			}
		}
	}
	based := func(h int64) uint64 {
		// the based block of the round open during block h (the feeder's windows are fixed by the parameters)
		s := p.TokenFeeders[1].StartBaseBlock
		if uint64(h) <= s {
			return s
		}
		delta := uint64(h) - 1 - s
		return uint64(h) - 1 - delta%p.TokenFeeders[1].Interval
	}
	// ---- continuous instance: first start (BeginBlock of the first block), then all blocks
	keeper.ResetAggregatorContext()
	keeper.ResetCache()
	keeper.ResetAggregatorContextCheckTx()
	keeper.ResetUpdatedFeederIDs()
	_ = keeper.GetCaches()
	_ = keeper.GetAggregatorContext(ctx, k)
	resA := make([][]bool, total)
	snaps := make([]*verifrt.StateSnap, total)
	var forked sdk.Context
	for b := 0; b < total; b++ {
		if b == history {
			forked = verifrt.ForkContext(ctx)
		}
		h := start + int64(b)
		resA[b] = verifRunBlock(ctx, k, am, ms, h, &plans[b], based(h), true)
		snaps[b] = verifrt.Snapshot(ctx)
		verifDebug("continuous", ctx, k, h, resA[b])
		if p.TokenFeeders[1].EndBlock == 0 && d.updateAt == 0 {
			verifRoundIDs(ctx, k, p, h)
		}
	}

	if after == 0 {
		// continuous run only (used by the C12 round-number check)
		if _, found := k.GetPriceTRLatest(ctx, 1); found {
			verifrt.Cover("a price was finalized or a round failed")
		}
		return
	}
	// ---- restarted instance: memory is gone, the store committed after `history` blocks remains
	keeper.ResetAggregatorContext()
	keeper.ResetCache()
	keeper.ResetAggregatorContextCheckTx()
	keeper.ResetUpdatedFeederIDs()
	first := start + int64(history)
	_ = keeper.GetCaches()
	_ = keeper.GetAggregatorContext(forked.WithBlockHeight(first), k) // BeginBlock of the first block after the restart
	for b := history; b < total; b++ {
		h := start + int64(b)
		resB := verifRunBlock(forked, k, am, ms, h, &plans[b], based(h), false)
		verifDebug("restarted", forked, k, h, resB)
		verifrt.Assert(verifSameBools(resA[b], resB), "the restarted node accepts and rejects the same price transactions as the node that never stopped")
		verifrt.Assert(verifrt.SameState(forked, snaps[b]), "the restarted node's store after each block equals the store of the node that never stopped")
	}
	for b := 0; b < total; b++ {
		for v := 0; v < nv; v++ {
			if resA[b][v] {
				verifrt.Cover("a price transaction was accepted")
			}
		}
	}
	if _, found := k.GetPriceTRLatest(ctx, 1); found {
		verifrt.Cover("a price was finalized or a round failed")
	}
}

func verifDebug(who string, ctx sdk.Context, k keeper.Keeper, h int64, res []bool) {
	pr, found := k.GetPriceTRLatest(ctx, 1)
	verifrt.Debug(nm("%s after block %d: accepted=%v latest price found=%v round=%d price=%q next round id=%d", who, h, res, found, pr.RoundID, pr.Price, k.GetNextRoundID(ctx, 1)), "")
}

// verifRoundIDs (C12): on the continuous node, after block h, every round whose submission
// window has ended is recorded exactly once and no round that has not been opened yet is: the
// stored round numbers are StartRoundID, StartRoundID+1, ... without gaps or repeats.
func verifRoundIDs(ctx sdk.Context, k keeper.Keeper, p types.Params, h int64) {
	f := p.TokenFeeders[1]
	closed, opened := uint64(0), uint64(0)
	for r := uint64(0); r < 8; r++ {
		based := f.StartBaseBlock + r*f.Interval
		if based+uint64(p.MaxNonce) <= uint64(h) {
			closed++
		}
		if based+1 <= uint64(h) {
			opened++
		}
	}
	next := k.GetNextRoundID(ctx, 1)
	recorded := next - f.StartRoundID
	verifrt.Assert(verifrt.All(recorded >= closed, recorded <= opened), "every round is recorded exactly once: by the end of its submission window at the latest and not before it opened (round numbers advance by one per interval)")
	for id := f.StartRoundID; id < next; id++ {
		_, found := k.GetPriceTRRoundID(ctx, 1, id)
		verifrt.Assert(found, "recorded round numbers have no gaps")
	}
}
