//go:build verif

package c18

import (
	"fmt"

	sdkmath "cosmossdk.io/math"
	sdk "github.com/cosmos/cosmos-sdk/types"
	"github.com/ethereum/go-ethereum/common/hexutil"

	dogfoodtypes "github.com/ExocoreNetwork/exocore/x/dogfood/types"

	"github.com/ExocoreNetwork/exocore/verifenv"
	"github.com/ExocoreNetwork/exocore/verifrt"
)

func nm(f string, a ...interface{}) string { return fmt.Sprintf(f, a...) }

func entry(kind, i int) []byte {
	b := make([]byte, 20)
	for j := range b {
		b[j] = byte(0x10*(kind+1) + i + 1)
	}
	return b
}

// VerifC18DogfoodQueues: the exported dogfood genesis lists, per epoch, exactly the entries of each
// of the three unbonding queues (opt-outs, consensus addresses to prune, undelegation maturities).
func VerifC18DogfoodQueues() {
	f := verifenv.NewFull(100)
	k := f.Dogfood
	k.SetParams(f.Ctx, dogfoodtypes.Params{EpochsUntilUnbonded: 7, EpochIdentifier: verifenv.EpochDay, MaxValidators: 4, HistoricalEntries: 10, MinSelfDelegation: sdkmath.ZeroInt()})
	E := verifrt.I64("epoch")
	verifrt.Assume(verifrt.All(E >= 1, E < (int64(1)<<40)))
	var n [3]int
	for kind := 0; kind < 3; kind++ {
		n[kind] = verifrt.Choice(nm("n_kind%d", kind), 3)
		for i := 0; i < n[kind]; i++ {
			v := entry(kind, i)
			switch kind {
			case 0:
				k.AppendOptOutToFinish(f.Ctx, E, sdk.AccAddress(v))
			case 1:
				k.AppendConsensusAddrToPrune(f.Ctx, E, sdk.ConsAddress(v))
			case 2:
				k.AppendUndelegationToMature(f.Ctx, E, v)
			}
		}
	}
	oo := k.GetAllOptOutsToFinish(f.Ctx)
	ca := k.GetAllConsAddrsToPrune(f.Ctx)
	um := k.GetAllUndelegationsToMature(f.Ctx)
	verifrt.Assert(len(oo) == btoi(n[0] > 0) && len(ca) == btoi(n[1] > 0) && len(um) == btoi(n[2] > 0), "one exported entry per non-empty (queue, epoch)")
	if n[0] > 0 && len(oo) == 1 {
		ok := oo[0].Epoch == E && len(oo[0].OperatorAccAddrs) == n[0]
		for i := 0; ok && i < n[0]; i++ {
			ok = oo[0].OperatorAccAddrs[i] == sdk.AccAddress(entry(0, i)).String()
		}
		verifrt.Assert(ok, "exported opt-outs are exactly the queued ones")
	}
	if n[1] > 0 && len(ca) == 1 {
		ok := ca[0].Epoch == E && len(ca[0].ConsAddrs) == n[1]
		for i := 0; ok && i < n[1]; i++ {
			ok = ca[0].ConsAddrs[i] == sdk.ConsAddress(entry(1, i)).String()
		}
		verifrt.Assert(ok, "exported consensus addresses to prune are exactly the queued ones")
	}
	if n[2] > 0 && len(um) == 1 {
		ok := um[0].Epoch == E && len(um[0].UndelegationRecordKeys) == n[2]
		for i := 0; ok && i < n[2]; i++ {
			ok = um[0].UndelegationRecordKeys[i] == hexutil.Encode(entry(2, i))
		}
		verifrt.Assert(ok, "exported undelegation maturities are exactly the queued ones")
	}
}

func btoi(b bool) int {
	if b {
		return 1
	}
	return 0
}
