//go:build verif

package c18

import (
	"github.com/ExocoreNetwork/exocore/verifenv"
	"github.com/ExocoreNetwork/exocore/verifrt"
)

// VerifC18OperatorOptStates: an operator opts into an AVS at height h1 and (possibly) out at
// height h2 >= h1 through the real OptIn / OptOut; the exported operator genesis must pass its
// own validation, and importing it into a fresh store must reproduce the opt states.
func VerifC18OperatorOptStates() { verifC18Operator(true) }

// VerifC18OperatorBeforeEpochEnd is the witness for finding F12: exported right after a first
// opt-in, before the AVS's epoch has ended once, the document lacks the AVS value entry.
func VerifC18OperatorBeforeEpochEnd() { verifC18Operator(false) }

func verifC18Operator(afterEpochEnd bool) {
	h1 := verifrt.I64("optin_height")
	h2 := verifrt.I64("optout_height")
	verifrt.Assume(verifrt.All(h1 >= 1, h2 >= h1, h2 < (int64(1)<<40)))
	f := verifenv.NewFull(h1)
	f.Env.RegisterAsset(verifenv.LSTAddrHex, 18, verifenv.SymAmount("staking_total", 64))
	f.SetPrice("asset0", verifenv.LSTAssetID(), 64, 0)
	f.RegisterAVS(verifenv.AVSAddr, []string{verifenv.LSTAssetID()}, 0, verifenv.EpochDay)
	f.RegisterOperator(0)
	verifrt.Assume(f.Operator.OptIn(f.Ctx, verifenv.OperatorAddr(0), verifenv.AVSAddr) == nil)
	optsOut := verifrt.Bool("opts_out")
	if optsOut {
		ctx2 := f.Ctx.WithBlockHeight(h2)
		verifrt.Assume(f.Operator.OptOut(ctx2, verifenv.OperatorAddr(0), verifenv.AVSAddr) == nil)
	}
	if afterEpochEnd {
		// the AVS's epoch has ended at least once since the opt-in
		verifrt.Assume(f.Operator.UpdateVotingPower(f.Ctx, verifenv.AVSAddr) == nil)
	}
	gs := f.Operator.ExportGenesis(f.Ctx)
	err := gs.Validate()
	verifrt.Debug("operator genesis validate", err)
	if afterEpochEnd {
		verifrt.Assert(err == nil, "the exported operator genesis passes genesis validation")
	} else {
		verifrt.Assert(err == nil, "F12: the operator genesis exported between a first opt-in and the AVS's next epoch end passes validation")
		return
	}
	verifrt.Assert(len(gs.OptStates) == 1, "one opt state exported")
	if len(gs.OptStates) == 1 {
		oi := gs.OptStates[0].OptInfo
		verifrt.Assert(oi.OptedInHeight == uint64(h1), "opt-in height exported")
		if optsOut {
			verifrt.Assert(oi.OptedOutHeight == uint64(h2), "opt-out height exported")
		}
	}
	// re-import into a fresh store and export again
	f2 := verifenv.NewFull(h2)
	f2.Operator.InitGenesis(f2.Ctx, *gs)
	gs2 := f2.Operator.ExportGenesis(f2.Ctx)
	same := len(gs2.OptStates) == len(gs.OptStates) && len(gs2.Operators) == len(gs.Operators) && len(gs2.OperatorUSDValues) == len(gs.OperatorUSDValues)
	if same && len(gs.OptStates) == 1 {
		a, b := gs.OptStates[0], gs2.OptStates[0]
		same = a.Key == b.Key && a.OptInfo.OptedInHeight == b.OptInfo.OptedInHeight && a.OptInfo.OptedOutHeight == b.OptInfo.OptedOutHeight && a.OptInfo.Jailed == b.OptInfo.Jailed
	}
	verifrt.Assert(same, "exporting again after re-import yields the same operator document")
}
