//go:build verif

package c18

import (
	sdkmath "cosmossdk.io/math"

	assetstypes "github.com/ExocoreNetwork/exocore/x/assets/types"

	"github.com/ExocoreNetwork/exocore/verifenv"
	"github.com/ExocoreNetwork/exocore/verifrt"
)

// VerifC18AssetsRoundTrip: an assets-module state with a client chain, two tokens and symbolic
// staker / operator asset rows (as normal operation writes them) is exported, validated and
// imported into a fresh chain: the new chain's assets store equals the exported one key by key.
func VerifC18AssetsRoundTrip() {
	e := verifenv.NewLedgerEnv(100, 2)
	verifrt.Assume(e.Assets.SetParams(e.Ctx, &assetstypes.Params{ExocoreLzAppAddress: "0x00000000000000000000000000000000000000aa",
		ExocoreLzAppEventTopic: "0xc6a377bfc4eb120024a8ac08eef205be16b817020812c73223e81d1bdb9708ec"}) == nil)
	bits := verifrt.Param("amount_bits", 100)
	// staker rows (deposit = withdrawable + pending + delegated part) and operator rows
	var sumDeposits [2]sdkmath.Int
	for a := 0; a < 2; a++ {
		sumDeposits[a] = sdkmath.ZeroInt()
	}
	type row struct {
		s, a int
		info assetstypes.StakerAssetInfo
	}
	var rows []row
	for s := 0; s < 2; s++ {
		for a := 0; a < 2; a++ {
			if s == 1 && (a == 1 || verifrt.Param("second_rows", 1) == 0 || !verifrt.Bool("second_staker_present")) {
				continue
			}
			w := verifenv.SymAmount(nm("staker%d_asset%d_withdrawable", s, a), bits)
			p := verifenv.SymAmount(nm("staker%d_asset%d_pending", s, a), bits)
			d := verifenv.SymAmount(nm("staker%d_asset%d_delegated", s, a), bits)
			info := assetstypes.StakerAssetInfo{TotalDepositAmount: w.Add(p).Add(d), WithdrawableAmount: w, PendingUndelegationAmount: p}
			rows = append(rows, row{s, a, info})
			sumDeposits[a] = sumDeposits[a].Add(info.TotalDepositAmount)
		}
	}
	type pool struct {
		o    int
		info assetstypes.OperatorAssetInfo
	}
	var pools []pool
	opSum := sdkmath.ZeroInt()
	for o := 0; o < 2; o++ {
		if o == 1 && (verifrt.Param("second_rows", 1) == 0 || !verifrt.Bool("second_operator_pool_present")) {
			continue
		}
		amt := verifenv.SymAmount(nm("operator%d_amount", o), bits)
		pend := verifenv.SymAmount(nm("operator%d_pending", o), bits)
		share := verifrt.Dec(nm("operator%d_share", o))
		self := verifrt.Dec(nm("operator%d_self_share", o))
		verifrt.Assume(verifrt.All(!self.IsNegative(), self.LTE(share), share.LTE(sdkmath.LegacyNewDecFromInt(verifenv.SymAmount(nm("operator%d_share_cap", o), bits)))))
		pools = append(pools, pool{o, assetstypes.OperatorAssetInfo{TotalAmount: amt, PendingUndelegationAmount: pend, TotalShare: share, OperatorShare: self}})
		opSum = opSum.Add(amt).Add(pend)
	}
	// the tokens' staking totals cover the deposits and what the operators hold (they move
	// together in normal operation)
	extra := verifenv.SymAmount("token_total_extra", bits)
	e.RegisterAsset(verifenv.LSTAddrHex, 18, sumDeposits[0].Add(opSum).Add(extra))
	e.RegisterAsset(verifenv.LST2Hex, 6, sumDeposits[1])
	for _, r := range rows {
		e.PutStakerAsset(r.s, verifenv.AssetIDs()[r.a], r.info)
	}
	for _, pl := range pools {
		e.PutOperatorAsset(pl.o, verifenv.LSTAssetID(), pl.info)
	}

	gs := e.Assets.ExportGenesis(e.Ctx)
	verifrt.Assert(gs.Validate() == nil, "the exported assets genesis passes genesis validation")
	snap := verifrt.Snapshot(e.Ctx)
	e2 := verifenv.NewLedgerEnv(100, 2)
	e2.Assets.InitGenesis(e2.Ctx, gs)
	verifrt.Assert(verifrt.SameState(e2.Ctx, snap), "a chain started from the exported assets genesis has exactly the exported assets state")
}
