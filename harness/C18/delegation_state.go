//go:build verif

package c01

import (
	delegationtypes "github.com/ExocoreNetwork/exocore/x/delegation/types"

	"github.com/ExocoreNetwork/exocore/verifrt"
)

// VerifC18DelegationStateRoundTrip: the delegation module over an arbitrary invariant-satisfying
// ledger (symbolic shares, waiting amounts, delegator lists, any associations) plus optionally one
// pending undelegation is exported, validated and imported into a copy of the chain whose
// delegation store was wiped: every store of the copy equals the original's.
func VerifC18DelegationStateRoundTrip() {
	e, l := setup()
	if verifrt.Bool("with_pending_record") {
		l.AddRecord("rec0", 0, 0, 8, 4)
	}
	gs := e.Deleg.ExportGenesis(e.Ctx)
	verifrt.Assert(gs.Validate() == nil, "the exported delegation genesis passes genesis validation")
	snap := verifrt.Snapshot(e.Ctx)
	copyCtx := verifrt.ForkContext(e.Ctx)
	verifrt.ClearStore(copyCtx, verifrt.StoreKey(delegationtypes.StoreKey))
	e.Deleg.InitGenesis(copyCtx, *gs)
	verifrt.Debug("diff", verifrt.DescribeDiff(copyCtx, snap))
	verifrt.Assert(verifrt.SameState(copyCtx, snap), "re-importing the exported delegation genesis reproduces the delegation store (delegations, delegator lists, associations, pending records and their indexes) and leaves the assets store as it was")
}
