//go:build verif

package c18

import (
	sdkmath "cosmossdk.io/math"

	assetstypes "github.com/ExocoreNetwork/exocore/x/assets/types"
	delegationtypes "github.com/ExocoreNetwork/exocore/x/delegation/types"
	operatortypes "github.com/ExocoreNetwork/exocore/x/operator/types"

	"github.com/ExocoreNetwork/exocore/verifenv"
	"github.com/ExocoreNetwork/exocore/verifrt"
)

// VerifC18OperatorValueStates: operator genesis of the states that the voting-power update
// leaves behind: an AVS nobody has opted into (value entry zero), an AVS with one operator whose
// self delegation is above or below the AVS's minimum (below: total value but no active value,
// not counted in the AVS value), exported before or after the epoch end: the export validates and
// re-importing it into a copy of the chain with a wiped operator store reproduces every store.
func VerifC18OperatorValueStates() {
	f := verifenv.NewFull(100)
	bits := verifrt.Param("amount_bits", 64)
	asset := verifenv.LSTAssetID()
	f.Env.RegisterAsset(verifenv.LSTAddrHex, 0, sdkmath.ZeroInt())
	f.SetPrice("asset0", asset, bits, 0)
	minSelf := verifrt.U64("min_self_delegation")
	verifrt.Assume(minSelf < 1<<62)
	f.RegisterAVS(verifenv.AVSAddr, []string{asset}, minSelf, verifenv.EpochDay)
	if verifrt.Bool("operator_opted_in") {
		f.RegisterOperator(0)
		// the operator's own staker (associated) holds `self` shares, a delegator the rest; 1:1 rate
		self := verifenv.SymAmount("self_amount", bits)
		other := verifenv.SymAmount("delegated_amount", bits)
		total := self.Add(other)
		if total.IsPositive() {
			f.Env.Ctx = f.Ctx
			f.Env.PutOperatorAsset(0, asset, assetstypes.OperatorAssetInfo{TotalAmount: total, PendingUndelegationAmount: sdkmath.ZeroInt(),
				TotalShare: sdkmath.LegacyNewDecFromInt(total), OperatorShare: sdkmath.LegacyNewDecFromInt(self)})
			f.Env.PutDelegation(2, 0, asset, delegationtypes.DelegationAmounts{UndelegatableShare: sdkmath.LegacyNewDecFromInt(total), WaitUndelegationAmount: sdkmath.ZeroInt()})
			verifrt.Assume(f.Deleg.AppendStakerForOperator(f.Ctx, verifenv.OperatorBech[0], asset, verifenv.StakerID(2)) == nil)
		}
		// opted in directly (the opt-in message itself demands the minimum; a later undelegation
		// or slash can bring the self delegation below it)
		verifrt.Assume(f.Operator.SetOptedInfo(f.Ctx, verifenv.OperatorBech[0], verifenv.AVSAddr, &operatortypes.OptedInfo{OptedInHeight: 10, OptedOutHeight: operatortypes.DefaultOptedOutHeight}) == nil)
		verifrt.Assume(f.Operator.InitOperatorUSDValue(f.Ctx, verifenv.AVSAddr, verifenv.OperatorBech[0]) == nil)
	}
	if verifrt.Bool("epoch_ended_since") {
		verifrt.Assume(f.Operator.UpdateVotingPower(f.Ctx, verifenv.AVSAddr) == nil)
		verifrt.Cover("exported after an epoch end")
	}
	gs := f.Operator.ExportGenesis(f.Ctx)
	verifrt.Assert(gs.Validate() == nil, "the exported operator genesis passes genesis validation")
	snap := verifrt.Snapshot(f.Ctx)
	copyCtx := verifrt.ForkContext(f.Ctx)
	verifrt.ClearStore(copyCtx, verifrt.StoreKey(operatortypes.StoreKey))
	f.Operator.InitGenesis(copyCtx, *gs)
	verifrt.Assert(verifrt.SameState(copyCtx, snap), "re-importing the exported operator genesis reproduces the operator store")
}
