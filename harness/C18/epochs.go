//go:build verif

package c15

import (
	epochskeeper "github.com/ExocoreNetwork/exocore/x/epochs/keeper"
	epochstypes "github.com/ExocoreNetwork/exocore/x/epochs/types"

	"github.com/ExocoreNetwork/exocore/verifrt"
)

// VerifC18EpochsRoundTrip: the epochs module with two identifiers in arbitrary valid running
// states (mid-epoch) is exported, validated and imported into a fresh chain at an arbitrary
// height and time: the new chain's epoch store equals the exported one (no counter, start time or
// start height is reset).
func VerifC18EpochsRoundTrip() {
	key := verifrt.StoreKey(epochstypes.StoreKey)
	ctx := verifrt.NewContextAt(100, symTime("export_time"), "exocoretestnet_233-1")
	k := epochskeeper.NewKeeper(verifrt.Codec(), key)
	for i, id := range []string{"day", "hour"} {
		info := symInfo(id, []string{"day", "hour"}[i])
		verifrt.Assume(info.Validate() == nil)
		// a running identifier: counting started, first epoch begun at a positive height
		verifrt.Assume(verifrt.All(info.EpochCountingStarted, info.CurrentEpoch >= 1, info.CurrentEpochStartHeight >= 1))
		put(ctx, info)
	}
	gs := k.ExportGenesis(ctx)
	verifrt.Assert(gs.Validate() == nil, "the exported epochs genesis passes genesis validation")
	snap := verifrt.Snapshot(ctx)
	h2 := verifrt.I64("import_height")
	verifrt.Assume(verifrt.All(h2 >= 0, h2 < 1<<40))
	ctx2 := verifrt.NewContextAt(h2, symTime("import_time"), "exocoretestnet_233-1")
	k.InitGenesis(ctx2, *gs)
	verifrt.Assert(verifrt.SameState(ctx2, snap), "a chain started from the exported epochs genesis has exactly the exported epoch state")
}
