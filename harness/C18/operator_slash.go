//go:build verif

package c18

import (
	sdkmath "cosmossdk.io/math"

	operatortypes "github.com/ExocoreNetwork/exocore/x/operator/types"
	oracletypes "github.com/ExocoreNetwork/exocore/x/oracle/types"

	"github.com/ExocoreNetwork/exocore/verifenv"
	"github.com/ExocoreNetwork/exocore/verifrt"
)

// VerifC18OperatorSlashStates: operator genesis after a real Slash (symbolic pool, optional
// pending undelegation, symbolic power, factor and infraction height): the slash record the
// keeper wrote is exported, passes genesis validation, and re-importing it into a copy of the
// chain with a wiped operator store reproduces every store.
func VerifC18OperatorSlashStates() {
	bits := verifrt.Param("amount_bits", 64)
	nrec := verifrt.Param("records", 1)
	f := verifenv.NewFull(100)
	assets := verifenv.AssetIDs()
	for a := 0; a < 2; a++ {
		f.Env.Ctx = f.Ctx
		f.Env.RegisterAsset(verifenv.AssetHex()[a], 0, sdkmath.ZeroInt())
		if verifrt.Param("sym_price", 0) == 1 {
			f.SetPrice([]string{"asset0", "asset1"}[a], assets[a], bits, 0)
		} else {
			f.Oracle.Prices[assets[a]] = oracletypes.Price{Value: sdkmath.NewInt(int64(a + 1)), Decimal: 0}
		}
	}
	f.RegisterAVS(verifenv.AVSAddr, assets, 0, verifenv.EpochDay)
	f.RegisterOperator(0)
	// the slashed operator opted into the AVS at some earlier height (and may have left since)
	verifrt.Assume(f.Operator.SetOptedInfo(f.Ctx, verifenv.OperatorBech[0], verifenv.AVSAddr, &operatortypes.OptedInfo{OptedInHeight: 1, OptedOutHeight: operatortypes.DefaultOptedOutHeight}) == nil)
	_, has := f.SymPool("op0_asset0", 0, assets[0], bits)
	l := verifenv.NewPlainLedger(f.Env, 1, 2, assets[0], bits)
	for i := 0; i < nrec; i++ {
		if verifrt.Param("all_records", 0) == 1 || verifrt.Bool(nm("with_record%d", i)) {
			r := l.AddRecordWithNonce(nm("rec%d", i), 0, 0, 8, uint64(i))
			if verifrt.Param("pin_records", 0) == 1 {
				// cheap variant for the quick tier: concrete records, so that the case of several
				// slashed undelegations of one staker and asset is reached with few paths
				amt := sdkmath.NewInt(int64(10 * (i + 1)))
				verifrt.Assume(verifrt.All(r.Record.Amount.Equal(amt), r.Record.ActualCompletedAmount.Equal(amt), r.Record.BlockNumber == 50, r.Record.CompleteBlockNumber == 120))
			}
			has = true
		}
	}
	power := []int64{1, 1000, 1 << 49}[verifrt.Choice("power", 3)]
	factor := verifrt.Dec("slash_factor")
	event := verifrt.I64("infraction_height")
	verifrt.Assume(verifrt.All(!factor.IsNegative(), factor.LTE(sdkmath.LegacyOneDec()), event >= 1, event < 100))
	param := &operatortypes.SlashInputInfo{
		IsDogFood: true, Power: power, SlashType: 1, Operator: verifenv.OperatorAddr(0), AVSAddr: verifenv.AVSAddr,
		SlashContract: verifenv.AVSAddr, SlashID: "0x1_0x5", SlashEventHeight: event, SlashProportion: factor,
	}
	err := f.Operator.Slash(f.Ctx, param)
	if err != nil {
		return
	}
	_ = has
	verifrt.Cover("a slash executed")
	if info, ierr := f.Operator.GetOperatorSlashInfo(f.Ctx, verifenv.AVSAddr, verifenv.OperatorBech[0], "0x1_0x5"); ierr == nil && len(info.ExecutionInfo.SlashUndelegations) > 1 {
		verifrt.Cover("several undelegations of one staker slashed by one event")
	}
	gs := f.Operator.ExportGenesis(f.Ctx)
	verifrt.Assert(len(gs.SlashStates) == 1, "the executed slash is exported")
	verifrt.Assert(gs.Validate() == nil, "the exported operator genesis passes genesis validation after a slash")
	snap := verifrt.Snapshot(f.Ctx)
	copyCtx := verifrt.ForkContext(f.Ctx)
	verifrt.ClearStore(copyCtx, verifrt.StoreKey(operatortypes.StoreKey))
	f.Operator.InitGenesis(copyCtx, *gs)
	verifrt.Assert(verifrt.SameState(copyCtx, snap), "re-importing the exported operator genesis after a slash reproduces the operator store")
}
