//go:build verif

package c18

import (
	sdkmath "cosmossdk.io/math"
	abci "github.com/cometbft/cometbft/abci/types"
	"github.com/cosmos/cosmos-sdk/store/prefix"
	sdk "github.com/cosmos/cosmos-sdk/types"

	avstypes "github.com/ExocoreNetwork/exocore/x/avs/types"
	delegationtypes "github.com/ExocoreNetwork/exocore/x/delegation/types"
	dogfoodtypes "github.com/ExocoreNetwork/exocore/x/dogfood/types"
	epochstypes "github.com/ExocoreNetwork/exocore/x/epochs/types"

	"github.com/ExocoreNetwork/exocore/verifenv"
	"github.com/ExocoreNetwork/exocore/verifrt"
)

// VerifC18DogfoodRoundTrip: the dogfood module with entries in every unbonding queue (opt-outs in
// progress with their per-operator finish epoch, replaced keys to prune, held undelegations with
// their maturity epoch) is exported mid-epoch, validated and imported into a fresh chain: every
// store of the new chain equals the exported chain's (queues, per-operator and per-record reverse
// lookups, total power, the chain's AVS registration). The validator set is empty here (its
// round trip needs the operator module's state and is outside this harness).
func VerifC18DogfoodRoundTrip() {
	params := dogfoodtypes.Params{EpochsUntilUnbonded: 7, EpochIdentifier: verifenv.EpochDay, MaxValidators: 4, HistoricalEntries: 10, MinSelfDelegation: sdkmath.ZeroInt(), AssetIDs: []string{verifenv.LSTAssetID()}}
	mk := func() *verifenv.Full {
		f := verifenv.NewFull(100)
		st := prefix.NewStore(f.Ctx.KVStore(verifrt.StoreKey(epochstypes.StoreKey)), epochstypes.KeyPrefixEpoch)
		ep := epochstypes.EpochInfo{Identifier: verifenv.EpochDay, Duration: 3600000000000, CurrentEpoch: 5, EpochCountingStarted: true}
		st.Set([]byte(verifenv.EpochDay), f.Env.Cdc.MustMarshal(&ep))
		// the assets module is imported before dogfood: the staking asset exists on both chains
		f.Env.RegisterAsset(verifenv.LSTAddrHex, 18, sdkmath.ZeroInt())
		return f
	}
	f := mk()
	k := f.Dogfood
	k.SetParams(f.Ctx, params)
	chain := avstypes.ChainIDWithoutRevision(f.Ctx.ChainID())
	_, err := f.AVS.RegisterAVSWithChainID(f.Ctx, &avstypes.AVSRegisterOrDeregisterParams{AvsName: chain, AssetID: params.AssetIDs,
		UnbondingPeriod: uint64(params.EpochsUntilUnbonded), MinSelfDelegation: params.MinSelfDelegation.Uint64(), EpochIdentifier: params.EpochIdentifier, ChainID: chain})
	verifrt.Assume(err == nil)
	// queues: entries registered in the current epoch and (optionally) in the next one
	for e := 0; e < 2; e++ {
		epoch := int64(12 + e)
		if verifrt.Bool(nm("epoch%d_opt_out", e)) {
			op := sdk.AccAddress(entry(0, e))
			k.AppendOptOutToFinish(f.Ctx, epoch, op)
			k.SetOperatorOptOutFinishEpoch(f.Ctx, op, epoch)
		}
		if verifrt.Bool(nm("epoch%d_key_to_prune", e)) {
			k.AppendConsensusAddrToPrune(f.Ctx, epoch, sdk.ConsAddress(entry(1, e)))
		}
		if verifrt.Bool(nm("epoch%d_held_undelegation", e)) {
			rk := delegationtypes.GetUndelegationRecordKey(50, uint64(e+1), verifenv.TxHashes[0], verifenv.OperatorBech[0])
			k.AppendUndelegationToMature(f.Ctx, epoch, rk)
			k.SetUndelegationMaturityEpoch(f.Ctx, rk, epoch)
		}
	}
	total := verifenv.SymAmount("last_total_power", 62)
	verifrt.Assume(total.IsPositive())
	k.SetLastTotalPower(f.Ctx, total)
	k.SetValidatorUpdates(f.Ctx, []abci.ValidatorUpdate{})

	gs := k.ExportGenesis(f.Ctx)
	verifrt.Assert(gs.Validate() == nil, "the exported dogfood genesis passes genesis validation")
	snap := verifrt.Snapshot(f.Ctx)
	f2 := mk()
	f2.Dogfood.InitGenesis(f2.Ctx, *gs)
	verifrt.Assert(verifrt.SameState(f2.Ctx, snap), "a chain started from the exported dogfood genesis has exactly the exported state: queues, per-operator opt-out finish epochs, per-record maturity epochs, total power")
}
