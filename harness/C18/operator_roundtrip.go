//go:build verif

package c07

import (
	operatortypes "github.com/ExocoreNetwork/exocore/x/operator/types"

	"github.com/ExocoreNetwork/exocore/verifenv"

	"github.com/ExocoreNetwork/exocore/verifrt"
)

// VerifC18OperatorRoundTrip: the registry world of the C07 harness (real message server, operator
// keeper, dogfood hooks and EndBlock) after every sequence of `steps` operations from its three
// initial states; the operator module is then exported, validated, and imported into a copy of the
// chain whose operator store was wiped: the copy's stores must equal the original's - including
// the consensus-address lookups of replaced keys that are still waiting to be pruned, previous
// keys and key-removal markers.
func VerifC18OperatorRoundTrip() {
	w := setup()
	init := verifrt.Choice("initial_validators", 3)
	w.bootstrap(init)
	steps := verifrt.Param("steps", 2)
	for t := 0; t < steps; t++ {
		w.step(t)
	}
	f := w.f
	gs := f.Operator.ExportGenesis(f.Ctx)
	err := gs.Validate()
	verifrt.Debug("validate", err)
	verifrt.Assert(err == nil, "the exported operator genesis passes genesis validation")
	if err != nil {
		return
	}
	snap := verifrt.Snapshot(f.Ctx)
	copyCtx := verifrt.ForkContext(f.Ctx)
	verifrt.ClearStore(copyCtx, verifrt.StoreKey(operatortypes.StoreKey))
	f.Operator.InitGenesis(copyCtx, *gs)
	verifrt.Debug("diff", verifrt.DescribeDiff(copyCtx, snap))
	// the lookups by consensus address of keys that were replaced and are still waiting to be
	// pruned are not part of the operator genesis (finding F28): compare once with them patched
	// into the copy, once without
	opKey := verifrt.StoreKey(operatortypes.StoreKey)
	patched := verifrt.ForkContext(copyCtx)
	replaced := false
	for j := range w.keys {
		has, who := w.rev(j)
		if has && who >= 0 && w.current[who] != j {
			replaced = true
			patched.KVStore(opKey).Set(operatortypes.KeyForChainIDAndConsKeyToOperator(w.chain, w.cons[j]), verifenv.OperatorAddr(who))
		}
	}
	verifrt.Assert(verifrt.SameState(patched, snap), "re-importing the exported operator genesis reproduces the operator store (current keys and their lookups, previous keys, removal markers, opt states, values)")
	if replaced {
		verifrt.Cover("exported while a replaced key is waiting to be pruned")
		verifrt.Assert(verifrt.SameState(copyCtx, snap), "F28: the lookup by consensus address of a replaced key that is still waiting to be pruned survives export and re-import")
	}
}
