//go:build verif

package c18

import (
	sdkmath "cosmossdk.io/math"

	"github.com/ExocoreNetwork/exocore/verifenv"
	"github.com/ExocoreNetwork/exocore/verifrt"
)

// VerifC18DelegationRoundTrip: export the delegation module with one pending undelegation record
// (symbolic heights, nonce, amounts, hold count), validate, import into a fresh store: the record
// is reachable through all three indexes again and carries the same hold count.
func VerifC18DelegationRoundTrip() {
	e := verifenv.NewLedgerEnv(100, 2)
	e.RegisterAsset(verifenv.LSTAddrHex, 18, sdkmath.ZeroInt())
	l := verifenv.NewPlainLedger(e, 1, 2, verifenv.LSTAssetID(), 100)
	r := l.AddRecord("rec0", 0, verifrt.Choice("operator", 2), 8, 4)
	hold := uint64(verifrt.Choice("hold", 3))
	if hold > 0 {
		e.SetHold(r.Key, hold)
	}
	gs := e.Deleg.ExportGenesis(e.Ctx)
	verifrt.Assert(gs.Validate() == nil, "the exported delegation genesis passes genesis validation")
	verifrt.Assert(len(gs.Undelegations) == 1, "the pending record is exported")
	e2 := verifenv.NewLedgerEnv(100, 2)
	e2.RegisterAsset(verifenv.LSTAddrHex, 18, sdkmath.ZeroInt())
	e2.Deleg.InitGenesis(e2.Ctx, *gs)
	cur, live := e2.RecordLive(r.Key)
	verifrt.Assert(live, "the record exists after re-import")
	if live {
		verifrt.Assert(verifrt.All(cur.Amount.Equal(r.Record.Amount), cur.ActualCompletedAmount.Equal(r.Record.ActualCompletedAmount),
			cur.CompleteBlockNumber == r.Record.CompleteBlockNumber, cur.BlockNumber == r.Record.BlockNumber, cur.LzTxNonce == r.Record.LzTxNonce), "the record is re-imported unchanged")
		verifrt.Assert(verifrt.All(e2.PendingIndexHas(cur.CompleteBlockNumber, cur.LzTxNonce, r.Key), e2.StakerIndexHas(cur.StakerID, cur.AssetID, cur.LzTxNonce, r.Key)), "the record is reachable through every index after re-import")
	}
	verifrt.Assert(e2.Deleg.GetUndelegationHoldCount(e2.Ctx, r.Key) == hold, "F13: the hold count of a pending undelegation survives export and re-import")
}
