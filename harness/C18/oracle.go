//go:build verif

package oracle

import (
	"github.com/cosmos/cosmos-sdk/codec"
	sdk "github.com/cosmos/cosmos-sdk/types"
	paramtypes "github.com/cosmos/cosmos-sdk/x/params/types"

	dogfoodtypes "github.com/ExocoreNetwork/exocore/x/dogfood/types"
	"github.com/ExocoreNetwork/exocore/x/oracle/keeper"
	"github.com/ExocoreNetwork/exocore/x/oracle/types"

	"github.com/ExocoreNetwork/exocore/verifrt"
)

// VerifC18OracleRoundTrip: the oracle module is run for `history` blocks from its first start
// (every pattern of which validator submits in which block), exported at that height, validated
// and imported into a fresh chain: the new chain's oracle store equals the exported one.
func VerifC18OracleRoundTrip() {
	history := verifrt.Param("history", 3)
	const nv = 3
	start := int64(20)
	ctx := verifrt.NewContext(start, 1700000000, "exocoretestnet_233-1")
	verifInitValidators()
	d := &verifDogfood{}
	for v := 0; v < nv; v++ {
		d.vals = append(d.vals, dogfoodtypes.ExocoreValidator{Address: verifValKeys[v].ToConsAddr(), Power: 1})
	}
	ps := paramtypes.NewSubspace(verifrt.Codec(), codec.NewLegacyAmino(), verifrt.StoreKey("params"), verifrt.StoreKey("tparams"), types.ModuleName)
	k := keeper.NewKeeper(verifrt.Codec(), verifrt.StoreKey(types.StoreKey), verifrt.StoreKey(types.MemStoreKey), ps, d, nil, nil, verifAuthority)
	ctx = verifrt.RemountContext(ctx)
	p := types.DefaultParams()
	p.TokenFeeders[1].StartBaseBlock = uint64(start) + uint64(verifrt.Choice("first_round_offset", 2))
	p.TokenFeeders[1].Interval = 4
	p.MaxNonce = 2
	verifrt.Assume(p.Validate() == nil)
	k.SetParams(ctx, p)
	am := AppModule{keeper: k}
	ms := keeper.NewMsgServerImpl(k)
	keeper.ResetAggregatorContext()
	keeper.ResetCache()
	keeper.ResetAggregatorContextCheckTx()
	keeper.ResetUpdatedFeederIDs()
	_ = keeper.GetCaches()
	_ = keeper.GetAggregatorContext(ctx, k)
	based := func(h int64) uint64 {
		s := p.TokenFeeders[1].StartBaseBlock
		if uint64(h) <= s {
			return s
		}
		delta := uint64(h) - 1 - s
		return uint64(h) - 1 - delta%p.TokenFeeders[1].Interval
	}
	for b := 0; b < history; b++ {
		plan := verifBlockPlan{send: make([]bool, nv), price: make([]int, nv), msgs: make([]*types.MsgCreatePrice, nv)}
		for v := 0; v < nv; v++ {
			plan.send[v] = verifrt.Bool(nm("block%d_val%d_sends", b, v))
		}
		h := start + int64(b)
		verifRunBlock(ctx, k, am, ms, h, &plan, based(h), true)
	}
	ctx = ctx.WithBlockHeight(start + int64(history) - 1)

	gs := ExportGenesis(ctx, k)
	verifrt.Assert(gs.Validate() == nil, "the exported oracle genesis passes genesis validation")
	// (a) everything but the validators' nonces
	woNonces := verifrt.ForkContext(ctx)
	hadNonces := false
	for v := 0; v < nv; v++ {
		if _, found := k.GetNonce(woNonces, verifCons(v)); found {
			hadNonces = true
			k.RemoveNonceWithValidator(woNonces, verifCons(v))
		}
	}
	snapNoNonces := verifrt.Snapshot(woNonces)
	snapAll := verifrt.Snapshot(ctx)
	ctx2 := verifrt.NewContext(start+int64(history)-1, 1700000000, "exocoretestnet_233-1")
	ctx2 = verifrt.RemountContext(ctx2)
	InitGenesis(ctx2, k, *gs)
	verifrt.Assert(verifrt.SameState(ctx2, snapNoNonces), "a chain started from the exported oracle genesis has the exported prices, round numbers, replay log and parameters")
	if hadNonces {
		verifrt.Cover("exported while a round is open")
		verifrt.Assert(verifrt.SameState(ctx2, snapAll), "F23: the validators' submission nonces of an open round survive export and re-import")
	}
	_ = sdk.AccAddress{}
}
