//go:build verif

package c07

import (
	avstypes "github.com/ExocoreNetwork/exocore/x/avs/types"
	dogfoodtypes "github.com/ExocoreNetwork/exocore/x/dogfood/types"
	operatortypes "github.com/ExocoreNetwork/exocore/x/operator/types"

	"github.com/ExocoreNetwork/exocore/verifrt"
)

// VerifC18RestartedWorld: the registry world of the C07 / C16 harness (real message server,
// operator keeper, dogfood hooks and EndBlock, with validators, opt-outs in progress and held
// undelegations) is run for `before` operations, then - between two blocks - the operator and
// dogfood modules are exported and validated, and the chain is restarted from the export: the
// operator, dogfood and avs stores are wiped (the avs module exports nothing, dogfood registers
// the chain's AVS again at import) and the two modules are imported in the application's order.
// The validator set handed to consensus must be the exported chain's, and the history then goes
// on for `after` operations on the restarted chain with every invariant of C07 / C16 still
// asserted after each step against the ghost state carried over the restart: the same opt-outs
// and held undelegations mature in the same blocks and reserved keys stay reserved.
// Restarts while a replaced key is waiting to be pruned are finding F28 (covered by C18_H8) and
// are cut here.
func VerifC18RestartedWorld() {
	w := setup()
	w.bootstrap(verifrt.Choice("initial_validators", 3))
	w.withUndelegations = verifrt.Param("undelegations", 1) == 1
	before := verifrt.Param("before", 2)
	after := verifrt.Param("after", 2)
	for t := 0; t < before; t++ {
		w.step(t)
	}
	// exports happen between blocks
	verifrt.Assume(!w.pendingEnd)
	for j := range w.keys {
		if w.pruneQueued[j] && w.dueAt[j] >= 0 {
			return
		}
	}
	// a running chain has at least one validator
	nval := 0
	for j := range w.keys {
		if w.wasVal[j] {
			nval++
		}
	}
	if nval == 0 {
		return
	}
	f := w.f
	ogs := f.Operator.ExportGenesis(f.Ctx)
	verifrt.Assert(ogs.Validate() == nil, "the exported operator genesis passes genesis validation")
	dgs := f.Dogfood.ExportGenesis(f.Ctx)
	verifrt.Assert(dgs.Validate() == nil, "the exported dogfood genesis passes genesis validation")
	if ogs.Validate() != nil || dgs.Validate() != nil {
		return
	}
	next := verifrt.ForkContext(f.Ctx)
	verifrt.ClearStore(next, verifrt.StoreKey(operatortypes.StoreKey))
	verifrt.ClearStore(next, verifrt.StoreKey(dogfoodtypes.StoreKey))
	verifrt.ClearStore(next, verifrt.StoreKey(avstypes.StoreKey))
	f.Operator.InitGenesis(next, *ogs)
	updates := f.Dogfood.InitGenesis(next, *dgs)
	verifrt.Assert(len(updates) == nval, "the restarted chain hands consensus exactly the exported validator set")
	f.Ctx = next
	f.Env.Ctx = next
	for j := range w.keys {
		verifrt.Assert(w.inValSet(j) == w.wasVal[j], "the restarted chain's validator set is the exported chain's")
	}
	verifrt.Assert(f.Dogfood.GetLastTotalPower(next).Equal(dgs.LastTotalPower), "the restarted chain's total power is the exported one")
	verifrt.Cover("restarted from the export")
	w.check()
	w.checkQueues()
	for t := 0; t < after; t++ {
		w.step(before + t)
		w.check()
		w.checkQueues()
	}
}
