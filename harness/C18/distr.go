//go:build verif

package c18

import (
	sdkmath "cosmossdk.io/math"
	"github.com/cosmos/cosmos-sdk/store/prefix"
	sdk "github.com/cosmos/cosmos-sdk/types"

	epochstypes "github.com/ExocoreNetwork/exocore/x/epochs/types"
	exominttypes "github.com/ExocoreNetwork/exocore/x/exomint/types"
	distrtypes "github.com/ExocoreNetwork/exocore/x/feedistribution/types"

	"github.com/ExocoreNetwork/exocore/verifenv"
	"github.com/ExocoreNetwork/exocore/verifrt"
)

func putDayEpoch(d *verifenv.Distr) {
	st := prefix.NewStore(d.Ctx.KVStore(verifrt.StoreKey(epochstypes.StoreKey)), epochstypes.KeyPrefixEpoch)
	ep := epochstypes.EpochInfo{Identifier: verifenv.EpochDay, Duration: 3600000000000, CurrentEpoch: 5, EpochCountingStarted: true}
	st.Set([]byte(verifenv.EpochDay), d.Env.Cdc.MustMarshal(&ep))
}

// VerifC18MintRoundTrip: exomint export / import reproduces the module's store.
func VerifC18MintRoundTrip() {
	d := verifenv.NewDistr(100)
	putDayEpoch(d)
	reward := verifenv.SymAmount("epoch_reward", 200)
	verifrt.Assume(reward.IsPositive())
	d.Mint.SetParams(d.Ctx, exominttypes.Params{MintDenom: verifenv.Denom, EpochReward: reward, EpochIdentifier: verifenv.EpochDay})
	gs := d.Mint.ExportGenesis(d.Ctx)
	verifrt.Assert(gs.Validate() == nil, "the exported mint genesis passes genesis validation")
	snap := verifrt.Snapshot(d.Ctx)
	d2 := verifenv.NewDistr(100)
	putDayEpoch(d2)
	d2.Mint.InitGenesis(d2.Ctx, *gs)
	verifrt.Assert(verifrt.SameState(d2.Ctx, snap), "a chain started from the exported mint genesis has exactly the exported mint state")
}

// VerifC18DistrRoundTrip: fee-distribution export / import after rewards have been booked
// (community pool, an operator's commission and outstanding rewards, a staker's rewards).
func VerifC18DistrRoundTrip() {
	d := verifenv.NewDistr(100)
	putDayEpoch(d)
	d.Distr.SetParams(d.Ctx, distrtypes.Params{EpochIdentifier: verifenv.EpochDay, CommunityTax: sdkmath.LegacyNewDecWithPrec(2, 2)})
	booked := verifrt.Bool("rewards_booked")
	if booked {
		amt := sdk.DecCoins{sdk.NewDecCoinFromDec(verifenv.Denom, sdkmath.LegacyNewDec(7))}
		d.Distr.SetFeePool(d.Ctx, &distrtypes.FeePool{CommunityPool: amt})
		val := sdk.ValAddress(verifenv.OperatorAddr(0))
		d.Distr.SetValidatorAccumulatedCommission(d.Ctx, val, distrtypes.ValidatorAccumulatedCommission{Commission: amt})
		d.Distr.SetValidatorOutstandingRewards(d.Ctx, val, distrtypes.ValidatorOutstandingRewards{Rewards: amt})
		d.Distr.SetStakerRewards(d.Ctx, verifenv.StakerID(0), distrtypes.StakerOutstandingRewards{Rewards: amt})
	}
	gs := d.Distr.ExportGenesis(d.Ctx)
	verifrt.Assert(gs.Validate() == nil, "the exported fee-distribution genesis passes genesis validation")
	snap := verifrt.Snapshot(d.Ctx)
	d2 := verifenv.NewDistr(100)
	putDayEpoch(d2)
	d2.Distr.InitGenesis(d2.Ctx, *gs)
	same := verifrt.SameState(d2.Ctx, snap)
	if booked {
		verifrt.Assert(same, "F22: booked rewards (community pool, commissions, outstanding and staker rewards) survive export and re-import")
	} else {
		verifrt.Assert(same, "a chain started from the exported fee-distribution genesis has exactly the exported state")
	}
}
