//go:build verif

package oracle

import (
	sdkmath "cosmossdk.io/math"
	"github.com/cosmos/cosmos-sdk/codec"
	sdk "github.com/cosmos/cosmos-sdk/types"
	paramtypes "github.com/cosmos/cosmos-sdk/x/params/types"

	"github.com/ExocoreNetwork/exocore/x/oracle/keeper"
	"github.com/ExocoreNetwork/exocore/x/oracle/types"

	"github.com/ExocoreNetwork/exocore/verifrt"
)

type verifNSTDeleg struct{}

func (verifNSTDeleg) UpdateNSTBalance(sdk.Context, string, string, sdkmath.Int) error { return nil }

type verifNSTAssets struct{}

func (verifNSTAssets) GetAssetsDecimal(_ sdk.Context, assets map[string]interface{}) (map[string]uint32, error) {
	out := map[string]uint32{}
	for a := range assets {
		out[a] = 18
	}
	return out, nil
}

var verifNSTStakers = []string{"0x1111111111111111111111111111111111111111", "0x2222222222222222222222222222222222222222", "0x3333333333333333333333333333333333333333"}

// VerifC18OracleNSTRoundTrip: the oracle's native-restaking bookkeeping after a sequence of NST
// deposits and full withdrawals by up to three stakers (through the real
// UpdateNSTValidatorListForStaker): the exported oracle genesis passes validation and importing it
// into a fresh chain reproduces the oracle store.
func VerifC18OracleNSTRoundTrip() {
	ctx := verifrt.NewContext(10, 1700000000, "exocoretestnet_233-1")
	ps := paramtypes.NewSubspace(verifrt.Codec(), codec.NewLegacyAmino(), verifrt.StoreKey("params"), verifrt.StoreKey("tparams"), types.ModuleName)
	k := keeper.NewKeeper(verifrt.Codec(), verifrt.StoreKey(types.StoreKey), verifrt.StoreKey(types.MemStoreKey), ps, &verifDogfood{}, verifNSTDeleg{}, verifNSTAssets{}, verifAuthority)
	ctx = verifrt.RemountContext(ctx)
	k.SetParams(ctx, types.DefaultParams())
	unit := sdkmath.NewIntWithDecimal(32, 18)
	deposited := make([]bool, len(verifNSTStakers))
	steps := verifrt.Param("steps", 3)
	for t := 0; t < steps; t++ {
		s := verifrt.Choice(nm("step%d_staker", t), len(verifNSTStakers)+1)
		if s == len(verifNSTStakers) {
			// no operation: histories shorter than `steps` (e.g. ending with every staker gone)
			continue
		}
		if !deposited[s] {
			verifrt.Assume(k.UpdateNSTValidatorListForStaker(ctx, keeper.NSTETHASSETID, verifNSTStakers[s], "0xaa", unit) == nil)
			deposited[s] = true
		} else {
			verifrt.Assume(k.UpdateNSTValidatorListForStaker(ctx, keeper.NSTETHASSETID, verifNSTStakers[s], "0xaa", unit.Neg()) == nil)
			deposited[s] = false
		}
	}
	any := false
	for _, d := range deposited {
		if d {
			any = true
		}
	}
	gs := ExportGenesis(ctx, k)
	err := gs.Validate()
	verifrt.Debug("validate", err)
	if any {
		verifrt.Cover("exported with native-restaking stakers")
	}
	verifrt.Assert(err == nil, "the exported oracle genesis passes genesis validation (native-restaking staker list and staker infos)")
	if err != nil {
		return
	}
	snap := verifrt.Snapshot(ctx)
	ctx2 := verifrt.RemountContext(verifrt.NewContext(10, 1700000000, "exocoretestnet_233-1"))
	InitGenesis(ctx2, k, *gs)
	verifrt.Debug("diff", verifrt.DescribeDiff(ctx2, snap))
	verifrt.Assert(verifrt.SameState(ctx2, snap), "a chain started from the exported oracle genesis has the exported native-restaking bookkeeping")
}
