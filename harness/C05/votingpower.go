//go:build verif

package c05

import (
	sdkmath "cosmossdk.io/math"

	assetstypes "github.com/ExocoreNetwork/exocore/x/assets/types"
	delegationkeeper "github.com/ExocoreNetwork/exocore/x/delegation/keeper"
	operatorkeeper "github.com/ExocoreNetwork/exocore/x/operator/keeper"
	operatortypes "github.com/ExocoreNetwork/exocore/x/operator/types"
	oracletypes "github.com/ExocoreNetwork/exocore/x/oracle/types"

	"github.com/ExocoreNetwork/exocore/verifenv"
	"github.com/ExocoreNetwork/exocore/verifrt"
)

var decimalChoices = []uint32{0, 6, 18}
var priceDecimalChoices = []uint8{0, 8}

func symDec(name string, bits int) sdkmath.LegacyDec {
	v := verifrt.Dec(name)
	verifrt.Assume(verifrt.All(!v.IsNegative(), v.LTE(sdkmath.LegacyNewDecFromInt(verifenv.SymAmount(name+"_cap", bits)))))
	return v
}

// VerifC05VotingPower: UpdateVotingPower for one AVS from a symbolic state: two operators in any
// opt state with arbitrary stale values, symbolic pools / self shares / prices / decimals, an
// asset list of one or two assets, a symbolic minimum self delegation.
func VerifC05VotingPower() {
	bits := verifrt.Param("amount_bits", 64)
	no := verifrt.Param("operators", 2)
	f := verifenv.NewFull(100)
	assets := verifenv.AssetIDs()
	nAssets := 1 + verifrt.Choice("avs_assets", 2)
	var dec [2]uint32
	var prices [2]oracletypes.Price
	for a := 0; a < 2; a++ {
		dec[a] = decimalChoices[verifrt.Choice(nm("asset%d_decimals", a), len(decimalChoices))]
		f.Env.Ctx = f.Ctx
		f.Env.RegisterAsset(verifenv.AssetHex()[a], dec[a], sdkmath.ZeroInt())
		pd := priceDecimalChoices[verifrt.Choice(nm("asset%d_price_decimals", a), len(priceDecimalChoices))]
		prices[a] = f.SetPrice(nm("asset%d", a), assets[a], bits, pd)
	}
	minSelf := verifrt.U64("min_self_delegation")
	verifrt.Assume(minSelf < (uint64(1) << 62))
	f.RegisterAVS(verifenv.AVSAddr, assets[:nAssets], minSelf, verifenv.EpochDay)

	type opState struct {
		opted bool
		pools [2]assetstypes.OperatorAssetInfo
		has   [2]bool
	}
	ops := make([]opState, no)
	for o := 0; o < no; o++ {
		f.RegisterOperator(o)
		// 0 never opted in, 1 opted in, 2 opted out
		k := verifrt.Choice(nm("op%d_opt_state", o), 3)
		if k != 0 {
			out := operatortypes.DefaultOptedOutHeight
			if k == 2 {
				out = 50
			}
			verifrt.Assume(f.Operator.SetOptedInfo(f.Ctx, verifenv.OperatorBech[o], verifenv.AVSAddr, &operatortypes.OptedInfo{OptedInHeight: 10, OptedOutHeight: out}) == nil)
		}
		ops[o].opted = k == 1
		if k == 1 {
			// stale values from an earlier epoch: arbitrary
			f.PutUSDValue(verifenv.AVSAddr, o, operatortypes.OperatorOptedUSDValue{
				SelfUSDValue: symDec(nm("op%d_old_self", o), bits), TotalUSDValue: symDec(nm("op%d_old_total", o), bits), ActiveUSDValue: symDec(nm("op%d_old_active", o), bits),
			})
		}
		for a := 0; a < 2; a++ {
			ops[o].pools[a], ops[o].has[a] = f.SymPool(nm("op%d_asset%d", o, a), o, assets[a], bits)
		}
	}
	f.PutAVSUSDValue(verifenv.AVSAddr, symDec("old_avs_value", bits))

	err := f.Operator.UpdateVotingPower(f.Ctx, verifenv.AVSAddr)
	verifrt.Assert(err == nil, "voting power update succeeds when prices and decimals are available")
	if err != nil {
		return
	}
	sumActive := sdkmath.LegacyZeroDec()
	for o := 0; o < no; o++ {
		got, gerr := f.Operator.GetOperatorOptedUSDValue(f.Ctx, verifenv.AVSAddr, verifenv.OperatorBech[o])
		verifrt.Assert(gerr == nil, "value entry readable")
		if gerr != nil {
			continue
		}
		if !ops[o].opted {
			verifrt.Assert(verifrt.All(got.TotalUSDValue.IsZero(), got.SelfUSDValue.IsZero(), got.ActiveUSDValue.IsZero()), "operators that are not opted in contribute nothing")
			continue
		}
		total, self := sdkmath.LegacyZeroDec(), sdkmath.LegacyZeroDec()
		for a := 0; a < nAssets; a++ {
			if !ops[o].has[a] {
				continue
			}
			p := ops[o].pools[a]
			total = total.Add(operatorkeeper.CalculateUSDValue(p.TotalAmount, prices[a].Value, dec[a], prices[a].Decimal))
			selfAmt, terr := delegationkeeper.TokensFromShares(p.OperatorShare, p.TotalShare, p.TotalAmount)
			verifrt.Assume(terr == nil)
			self = self.Add(operatorkeeper.CalculateUSDValue(selfAmt, prices[a].Value, dec[a], prices[a].Decimal))
		}
		verifrt.Assert(got.TotalUSDValue.Equal(total), "total value = sum over supported assets of pool amount x price / 10^(decimals)")
		verifrt.Assert(got.SelfUSDValue.Equal(self), "self value = same formula on the token equivalent of the self share")
		active := sdkmath.LegacyZeroDec()
		if self.GTE(sdkmath.LegacyNewDec(int64(minSelf))) {
			active = total
		}
		verifrt.Assert(got.ActiveUSDValue.Equal(active), "active value = total if self value meets the minimum self delegation, else zero")
		verifrt.Assert(verifrt.All(!got.TotalUSDValue.IsNegative(), !got.SelfUSDValue.IsNegative(), !got.ActiveUSDValue.IsNegative()), "values are never negative")
		sumActive = sumActive.Add(active)
	}
	avsVal, aerr := f.Operator.GetAVSUSDValue(f.Ctx, verifenv.AVSAddr)
	verifrt.Assert(verifrt.All(aerr == nil, avsVal.Equal(sumActive)), "AVS value = sum of active values")
}
