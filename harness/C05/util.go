//go:build verif

package c05

import "fmt"

func nm(f string, a ...interface{}) string { return fmt.Sprintf(f, a...) }
