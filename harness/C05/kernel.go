//go:build verif

package keeper

import (
	"math/big"

	sdkmath "cosmossdk.io/math"

	"github.com/ExocoreNetwork/exocore/verifrt"
)

func verifC05Pow10(n int) sdkmath.Int {
	return sdkmath.NewIntFromBigInt(new(big.Int).Exp(big.NewInt(10), big.NewInt(int64(n)), nil))
}

// VerifC05USDValue: CalculateUSDValue == floor(amount*price*10^18 / 10^(d+pd)) / 10^18 for every
// amount, price >= 0 and decimals 0..18; non-negative; monotone in amount and in price.
func VerifC05USDValue() {
	bits := verifrt.Param("amount_bits", 120)
	max := sdkmath.NewIntFromBigInt(new(big.Int).Lsh(big.NewInt(1), uint(bits)))
	a := verifrt.Int("amount")
	a2 := verifrt.Int("amount2")
	p := verifrt.Int("price")
	p2 := verifrt.Int("price2")
	verifrt.Assume(verifrt.All(!a.IsNegative(), a.LTE(a2), a2.LTE(max), !p.IsNegative(), p.LTE(p2), p2.LTE(max)))
	d := verifrt.Choice("asset_decimals", 19)
	pd := verifrt.Choice("price_decimals", 19)
	if verifrt.Param("all_price_decimals", 0) == 0 && pd != 0 && pd != 8 && pd != 18 {
		return
	}
	// lemma for the solver: the product is monotone (non-negative factors)
	verifrt.Assert(a.Mul(p).LTE(a2.Mul(p2)), "product amount*price is monotone")
	v := CalculateUSDValue(a, p, uint32(d), uint8(pd))
	v2 := CalculateUSDValue(a2, p2, uint32(d), uint8(pd))
	// reference formula on the raw 18-decimal integer
	ref := new(big.Int).Mul(a.Mul(p).BigInt(), verifC05Pow10(18).BigInt())
	ref.Quo(ref, verifC05Pow10(d+pd).BigInt())
	verifrt.Assert(v.BigInt().Cmp(ref) == 0, "USD value equals floor(amount*price*1e18/10^(decimals+priceDecimals)) in 18-decimal fixed point")
	verifrt.Assert(!v.IsNegative(), "USD value is never negative")
	verifrt.Assert(v.LTE(v2), "USD value is monotone in amount and price")
}
