//go:build verif

package c20

import (
	"fmt"
	"strconv"

	sdkmath "cosmossdk.io/math"
	"github.com/ethereum/go-ethereum/common"

	avskeeper "github.com/ExocoreNetwork/exocore/x/avs/keeper"
	avstypes "github.com/ExocoreNetwork/exocore/x/avs/types"

	"github.com/ExocoreNetwork/exocore/verifenv"
	"github.com/ExocoreNetwork/exocore/verifrt"
)

func nmr(f string, a ...interface{}) string { return fmt.Sprintf(f, a...) }

var regAVS = []string{"0x00000000000000000000000000000000000000a1", "0x00000000000000000000000000000000000000a2", "0x00000000000000000000000000000000000000a3"}
var regTask = []string{"0x00000000000000000000000000000000000000b1", "0x00000000000000000000000000000000000000b2", "0x00000000000000000000000000000000000000b3"}

// VerifC20Registry: a bounded sequence of AVS registrations, AVS updates (task-address changes)
// and task creations over three AVS addresses and three task-contract addresses. After every
// step a task-contract address belongs to at most one AVS, a registration or update that would
// break this is rejected, and the task ids handed out per task contract are 1, 2, 3, ... with a
// stored task for each.
func VerifC20Registry() {
	f := verifenv.NewFull(100)
	putEpoch(f, verifenv.EpochDay, 5)
	f.Env.RegisterAsset(verifenv.LSTAddrHex, 6, sdkmath.NewInt(1000))
	owner := verifenv.OperatorBech[0]
	avsOf := func(i int) string { return common.HexToAddress(regAVS[i]).String() }
	taskOf := func(i int) string { return common.HexToAddress(regTask[i]).String() }
	reg := func(i, t int) error {
		return f.AVS.UpdateAVSInfo(f.Ctx, &avstypes.AVSRegisterOrDeregisterParams{AvsName: "avs", AvsAddress: avsOf(i), TaskAddr: taskOf(t), SlashContractAddr: avsOf(i),
			RewardContractAddr: avsOf(i), AvsOwnerAddress: []string{owner}, AssetID: []string{verifenv.LSTAssetID()}, UnbondingPeriod: 7, EpochIdentifier: verifenv.EpochDay,
			MinStakeAmount: 1, CallerAddress: owner, Action: avskeeper.RegisterAction})
	}
	verifrt.Assume(reg(0, 0) == nil)
	verifrt.Assume(reg(1, 1) == nil)
	// ghost: which AVS holds which task address (-1 none), tasks created per task address
	holder := []int{0, 1, -1}
	taskOfAVS := []int{0, 1, -1}
	registered := []bool{true, true, false}
	created := []uint64{0, 0, 0}
	for i := 0; i < 2; i++ {
		f.PutAVSUSDValue(avsOf(i), sdkmath.LegacyNewDec(100))
	}
	steps := verifrt.Param("steps", 3)
	for s := 0; s < steps; s++ {
		switch verifrt.Choice(nmr("step%d_op", s), 3) {
		case 0: // register AVS i with task address t
			i := verifrt.Choice(nmr("step%d_avs", s), 3)
			t := verifrt.Choice(nmr("step%d_task_addr", s), 3)
			err := reg(i, t)
			ok := verifrt.All(!registered[i], holder[t] == -1)
			verifrt.Assert((err == nil) == ok, "a registration is accepted exactly when the AVS address is new and the task-contract address is not used by another AVS")
			if err == nil {
				registered[i], holder[t], taskOfAVS[i] = true, i, t
				f.PutAVSUSDValue(avsOf(i), sdkmath.LegacyNewDec(100))
			}
		case 1: // AVS i changes its task address to t
			i := verifrt.Choice(nmr("step%d_avs", s), 3)
			t := verifrt.Choice(nmr("step%d_task_addr", s), 3)
			err := f.AVS.UpdateAVSInfo(f.Ctx, &avstypes.AVSRegisterOrDeregisterParams{AvsAddress: avsOf(i), TaskAddr: taskOf(t), CallerAddress: owner, Action: avskeeper.UpdateAction})
			ok := verifrt.All(registered[i], verifrt.Any(holder[t] == -1, holder[t] == i))
			verifrt.Assert((err == nil) == ok, "an update is accepted exactly for a registered AVS whose new task-contract address is free or its own")
			if err == nil {
				if taskOfAVS[i] >= 0 {
					holder[taskOfAVS[i]] = -1
				}
				holder[t], taskOfAVS[i] = i, t
			}
		case 2: // a task is created by task contract t
			t := verifrt.Choice(nmr("step%d_task_addr", s), 3)
			p := &avskeeper.TaskInfoParams{TaskContractAddress: taskOf(t), TaskName: "task", Hash: []byte{1}, TaskResponsePeriod: 2, TaskChallengePeriod: 2,
				ThresholdPercentage: 60, TaskStatisticalPeriod: 2, CallerAddress: owner}
			err := f.AVS.CreateAVSTask(f.Ctx, p)
			verifrt.Assert((err == nil) == (holder[t] >= 0), "a task is created exactly for the task contract of a registered AVS")
			if err == nil {
				created[t]++
				verifrt.Assert(p.TaskID == created[t], "task ids of a task contract are 1, 2, 3, ... without gaps or repeats")
			}
		}
		// registry invariant
		for t := range regTask {
			n := 0
			for i := range regAVS {
				if info, err := f.AVS.GetAVSInfo(f.Ctx, avsOf(i)); err == nil && info.Info.TaskAddr == taskOf(t) {
					n++
				}
			}
			verifrt.Assert(n <= 1, "a task-contract address belongs to at most one AVS")
			for id := uint64(1); id <= created[t]; id++ {
				_, err := f.AVS.GetTaskInfo(f.Ctx, strconv.FormatUint(id, 10), taskOf(t))
				verifrt.Assert(err == nil, "every task id handed out has its stored task")
			}
		}
	}
}
