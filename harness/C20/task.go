//go:build verif

package c20

import (
	"math/big"

	"github.com/cosmos/cosmos-sdk/store/prefix"
	"github.com/ethereum/go-ethereum/common"
	"github.com/ethereum/go-ethereum/crypto"

	avstypes "github.com/ExocoreNetwork/exocore/x/avs/types"
	epochstypes "github.com/ExocoreNetwork/exocore/x/epochs/types"

	"github.com/ExocoreNetwork/exocore/verifenv"
	"github.com/ExocoreNetwork/exocore/verifrt"
)

const taskAddr = "0x00000000000000000000000000000000000000b1"

func putEpoch(f *verifenv.Full, id string, cur int64) {
	st := prefix.NewStore(f.Ctx.KVStore(verifrt.StoreKey(epochstypes.StoreKey)), epochstypes.KeyPrefixEpoch)
	info := epochstypes.EpochInfo{Identifier: id, Duration: 3600000000000, CurrentEpoch: cur, EpochCountingStarted: true}
	st.Set([]byte(id), f.Env.Cdc.MustMarshal(&info))
}

// VerifC20TaskResult: SetTaskResultInfo at a symbolic epoch offset, for both phases, with every
// combination of present/absent fields, stored phase-one result, sender identity, key registration
// and signature validity. Accepted <=> the window inequalities and the phase conditions.
func VerifC20TaskResult() {
	f := verifenv.NewFull(100)
	f.RegisterAVS(verifenv.AVSAddr, nil, 0, verifenv.EpochDay)
	// make the AVS own the task contract
	info, _ := f.AVS.GetAVSInfo(f.Ctx, verifenv.AVSAddr)
	info.Info.TaskAddr = taskAddr
	verifrt.Assume(f.AVS.SetAVSInfo(f.Ctx, info.Info) == nil)
	registered := verifrt.Bool("operator_registered")
	if registered {
		f.RegisterOperator(0)
	}
	hasKey := verifrt.Bool("bls_key_registered")
	if hasKey {
		verifrt.Assume(f.AVS.SetOperatorPubKey(f.Ctx, &avstypes.BlsPubKeyInfo{Operator: verifenv.OperatorBech[0], Name: "k", PubKey: verifrt.BLSPubKey()}) == nil)
	}
	start := verifrt.U64("starting_epoch")
	respP := verifrt.U64("response_period")
	statP := verifrt.U64("statistical_period")
	cur := verifrt.I64("current_epoch")
	lim := uint64(1) << uint(verifrt.Param("epoch_bits", 32))
	verifrt.Assume(verifrt.All(start < lim, respP < lim, statP < lim, cur >= 0, cur < int64(lim)))
	taskExists := verifrt.Bool("task_exists")
	const tid = uint64(1)
	if taskExists {
		verifrt.Assume(f.AVS.SetTaskInfo(f.Ctx, &avstypes.TaskInfo{TaskContractAddress: taskAddr, Name: "t", TaskId: tid,
			TaskResponsePeriod: respP, TaskStatisticalPeriod: statP, TaskChallengePeriod: 1, StartingEpoch: start}) == nil)
	}
	putEpoch(f, verifenv.EpochDay, cur)

	// the honest response payload and signatures
	respTaskID := verifrt.U64("response_task_id")
	payload, perr := avstypes.MarshalTaskResponse(avstypes.TaskResponse{TaskID: respTaskID, NumberSum: big.NewInt(7)})
	_ = perr
	verifrt.Assume(perr == nil)
	digest := crypto.Keccak256Hash(payload)
	goodSig := verifrt.BLSSign(digest.Bytes())
	otherSig := verifrt.BLSSign(common.HexToHash("0x01").Bytes())

	// stored phase-one result
	stored := verifrt.Choice("stored_phase_one", 3) // 0 none, 1 with the good signature, 2 with another signature
	if stored != 0 {
		sig := goodSig
		if stored == 2 {
			sig = otherSig
		}
		st := prefix.NewStore(f.Ctx.KVStore(verifrt.StoreKey(avstypes.StoreKey)), avstypes.KeyPrefixTaskResult)
		prev := avstypes.TaskResultInfo{OperatorAddress: verifenv.OperatorBech[0], BlsSignature: sig, TaskContractAddress: taskAddr, TaskId: tid, Stage: avstypes.TwoPhaseCommitOne}
		st.Set([]byte(verifenv.OperatorBech[0]+"/"+taskAddr+"/1"), f.Env.Cdc.MustMarshal(&prev))
	}

	// the submission
	stage := []string{avstypes.TwoPhaseCommitOne, avstypes.TwoPhaseCommitTwo, "3"}[verifrt.Choice("stage", 3)]
	sigKind := verifrt.Choice("signature", 3) // 0 nil, 1 good, 2 other
	var sig []byte
	if sigKind == 1 {
		sig = goodSig
	} else if sigKind == 2 {
		sig = otherSig
	}
	withResponse := verifrt.Bool("with_response")
	withHash := verifrt.Bool("with_hash")
	sub := &avstypes.TaskResultInfo{OperatorAddress: verifenv.OperatorBech[0], BlsSignature: sig, TaskContractAddress: taskAddr, TaskId: tid, Stage: stage}
	if withResponse {
		sub.TaskResponse = payload
	}
	if withHash {
		sub.TaskResponseHash = "0xabc"
	}
	from := verifenv.OperatorBech[verifrt.Choice("from", 2)]
	snap := verifrt.Snapshot(f.Ctx)
	err := f.AVS.SetTaskResultInfo(f.Ctx, from, sub)
	if err != nil {
		verifrt.Assert(verifrt.SameState(f.Ctx, snap), "a rejected task result changes no store")
	}
	if from != verifenv.OperatorBech[0] {
		verifrt.Assert(err != nil, "a task result signed by an account other than the operator it is attributed to is rejected")
	}

	common_ := verifrt.All(from == verifenv.OperatorBech[0], registered, hasKey, taskExists)
	deadline1 := int64(start) + int64(respP)
	deadline2 := deadline1 + int64(statP)
	phase1 := verifrt.All(common_, stage == avstypes.TwoPhaseCommitOne, stored == 0, sigKind != 0, !withHash, !withResponse, cur <= deadline1)
	phase2 := verifrt.All(common_, stage == avstypes.TwoPhaseCommitTwo, withResponse, stored == 1, sigKind == 1,
		cur > deadline1, cur <= deadline2, respTaskID == tid)
	if stage == avstypes.TwoPhaseCommitOne {
		verifrt.Assert((err == nil) == phase1, "phase one accepted exactly: signer is the registered operator with a BLS key, task exists, first time, signature present, no response/hash, within the response period")
	}
	if stage == "3" {
		verifrt.Assert(err != nil, "unknown stages are rejected")
	}
	if err == nil {
		got, gerr := f.AVS.GetTaskResultInfo(f.Ctx, verifenv.OperatorBech[0], taskAddr, tid)
		verifrt.Assert(gerr == nil && got.Stage == stage, "an accepted result is stored with its stage")
	}
	if stage == avstypes.TwoPhaseCommitTwo {
		verifrt.Assert((err == nil) == phase2, "phase two accepted exactly: registered operator with a BLS key, task exists, response present, the stored phase-one signature, which verifies for the revealed response carrying the same task id, during the statistical period")
	}
}
