//go:build verif

package c03

import (
	sdkmath "cosmossdk.io/math"
	abci "github.com/cometbft/cometbft/abci/types"

	"github.com/ExocoreNetwork/exocore/verifenv"
	"github.com/ExocoreNetwork/exocore/verifrt"
)

// VerifC09EndBlockItem: delegation EndBlock with two due records of two stakers where the
// first staker's pending figure is too small for its record (so that completing it fails at some
// inner step): the failing item leaves no partial effect at all (the store equals the store in
// which only the other record was processed) and the other record is still completed.
func VerifC09EndBlockItem() {
	h := int64(50)
	mk := func(tamper bool, both bool) (*verifenv.Env, *verifenv.Ledger, []*verifenv.Rec) {
		e := verifenv.NewLedgerEnvAt(h, 2)
		e.RegisterAsset(verifenv.LSTAddrHex, 18, sdkmath.ZeroInt())
		l := verifenv.NewPlainLedger(e, 2, 2, verifenv.LSTAssetID(), 100)
		var recs []*verifenv.Rec
		recs = append(recs, l.AddRecordWithNonce("rec0", 0, 0, 8, 1))
		if both {
			recs = append(recs, l.AddRecordWithNonce("rec1", 1, 1, 8, 2))
		}
		if tamper {
			// the first staker's pending figure does not cover its record
			si, _ := e.Assets.GetStakerSpecifiedAssetInfo(e.Ctx, verifenv.StakerID(0), l.AssetID)
			si.PendingUndelegationAmount = sdkmath.ZeroInt()
			e.PutStakerAsset(0, l.AssetID, *si)
		}
		return e, l, recs
	}
	e, _, recs := mk(true, true)
	for _, r := range recs {
		verifrt.Assume(r.Record.CompleteBlockNumber == uint64(h))
	}
	e.Deleg.EndBlock(e.Ctx, abci.RequestEndBlock{})
	_, live0 := e.RecordLive(recs[0].Key)
	_, live1 := e.RecordLive(recs[1].Key)
	verifrt.Assert(live0, "the item that fails is not completed")
	verifrt.Assert(!live1, "a failing item does not stop the other due record from being completed")
	si0, err := e.Assets.GetStakerSpecifiedAssetInfo(e.Ctx, verifenv.StakerID(0), verifenv.LSTAssetID())
	verifrt.Assert(verifrt.All(err == nil, si0.PendingUndelegationAmount.IsZero()), "the failing item leaves the staker's row as it was")
	d0, err := e.Deleg.GetSingleDelegationInfo(e.Ctx, verifenv.StakerID(0), verifenv.LSTAssetID(), verifenv.OperatorBech[0])
	verifrt.Assert(verifrt.All(err == nil, d0.WaitUndelegationAmount.Equal(recs[0].Record.Amount)), "the failing item leaves the delegation's waiting amount as it was (no partial effect of the steps that ran before the failure)")
	oi, err := e.Assets.GetOperatorSpecifiedAssetInfo(e.Ctx, verifenv.OperatorAddr(0), verifenv.LSTAssetID())
	verifrt.Assert(verifrt.All(err == nil, oi.PendingUndelegationAmount.Equal(recs[0].Record.Amount)), "the failing item leaves the operator's pending figure as it was")
	verifrt.Assert(verifrt.All(e.PendingIndexHas(uint64(h), 1, recs[0].Key), e.StakerIndexHas(verifenv.StakerID(0), verifenv.LSTAssetID(), 1, recs[0].Key)), "the failing item stays in every index")
}
