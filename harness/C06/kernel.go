//go:build verif

package utils

import (
	"bytes"

	sdk "github.com/cosmos/cosmos-sdk/types"

	keytypes "github.com/ExocoreNetwork/exocore/types/keys"
	"github.com/ExocoreNetwork/exocore/verifrt"
)

// VerifC06SortByPower: the output is a permutation of the input ordered by (power desc,
// address asc); with distinct addresses that order is total, so the result is unique.
func VerifC06SortByPower() {
	n := verifrt.Param("n", 3)
	addrs := make([]sdk.AccAddress, n)
	keys := make([]keytypes.WrappedConsKey, n)
	powers := make([]int64, n)
	for i := 0; i < n; i++ {
		a := make([]byte, 20)
		// distinct addresses whose relative order is symbolic: one symbolic byte followed by a unique tag
		a[0] = verifrt.U8(string(rune('a'+i)) + "_addr0")
		a[19] = byte(i + 1)
		addrs[i] = a
		powers[i] = verifrt.I64(string(rune('a'+i)) + "_power")
	}
	oa, ok, op := SortByPower(addrs, keys, powers)
	verifrt.Assert(verifrt.All(len(oa) == n, len(ok) == n, len(op) == n), "lengths preserved")
	// permutation: every input pair appears exactly once
	for i := 0; i < n; i++ {
		cnt := 0
		for j := 0; j < n; j++ {
			if bytes.Equal(oa[j], addrs[i]) && op[j] == powers[i] {
				cnt++
			}
		}
		verifrt.Assert(cnt == 1, "output is a permutation of the input (address,power) pairs")
	}
	for j := 0; j+1 < n; j++ {
		verifrt.Assert(verifrt.Any(op[j] > op[j+1], verifrt.All(op[j] == op[j+1], bytes.Compare(oa[j], oa[j+1]) < 0)), "ordered by power descending, ties by address ascending")
	}
}
