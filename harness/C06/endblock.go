//go:build verif

package c06

import (
	"fmt"
	"math/big"

	sdkmath "cosmossdk.io/math"
	abci "github.com/cometbft/cometbft/abci/types"
	"github.com/cosmos/cosmos-sdk/store/prefix"
	sdk "github.com/cosmos/cosmos-sdk/types"

	keytypes "github.com/ExocoreNetwork/exocore/types/keys"
	avstypes "github.com/ExocoreNetwork/exocore/x/avs/types"
	dogfoodtypes "github.com/ExocoreNetwork/exocore/x/dogfood/types"
	epochstypes "github.com/ExocoreNetwork/exocore/x/epochs/types"
	operatorkeeper "github.com/ExocoreNetwork/exocore/x/operator/keeper"
	operatortypes "github.com/ExocoreNetwork/exocore/x/operator/types"
	oracletypes "github.com/ExocoreNetwork/exocore/x/oracle/types"

	"github.com/ExocoreNetwork/exocore/verifenv"
	"github.com/ExocoreNetwork/exocore/verifrt"
)

func nm(f string, a ...interface{}) string { return fmt.Sprintf(f, a...) }

var keyB64 = []string{
	"MTExMTExMTExMTExMTExMTExMTExMTExMTExMTExMTE=",
	"MjIyMjIyMjIyMjIyMjIyMjIyMjIyMjIyMjIyMjIyMjI=",
	"MzMzMzMzMzMzMzMzMzMzMzMzMzMzMzMzMzMzMzMzMzM=",
	"NDQ0NDQ0NDQ0NDQ0NDQ0NDQ0NDQ0NDQ0NDQ0NDQ0NDQ=",
}

func keyJSON(j int) string {
	return `{"@type":"/cosmos.crypto.ed25519.PubKey","key":"` + keyB64[j] + `"}`
}

// VerifC06EndBlock: the dogfood EndBlock of the block that closes an epoch, from an arbitrary
// previous validator set (any subset of the three operators' keys plus a key nobody holds any
// more, with arbitrary powers) and arbitrary new powers, eligibility (opted in / not / jailed) and
// maximum. The stored set afterwards is exactly the top eligible operators, the total power is
// their sum, and the update list is a duplicate-free, sorted diff between the two sets.
func VerifC06EndBlock() {
	nOps := verifrt.Param("operators", 3)
	f := verifenv.NewFull(100)
	usdCap := sdkmath.NewIntFromBigInt(new(big.Int).Lsh(big.NewInt(1), uint(verifrt.Param("usd_bits", 20))))
	chain := avstypes.ChainIDWithoutRevision(f.Ctx.ChainID())
	st := prefix.NewStore(f.Ctx.KVStore(verifrt.StoreKey(epochstypes.StoreKey)), epochstypes.KeyPrefixEpoch)
	ep := epochstypes.EpochInfo{Identifier: verifenv.EpochDay, Duration: 3600000000000, CurrentEpoch: 5, EpochCountingStarted: true}
	st.Set([]byte(verifenv.EpochDay), f.Env.Cdc.MustMarshal(&ep))
	maxVals := verifrt.U32("max_validators")
	verifrt.Assume(verifrt.All(maxVals >= 1, maxVals <= uint32(verifrt.Param("max_cap", 3))))
	f.Dogfood.SetParams(f.Ctx, dogfoodtypes.Params{EpochsUntilUnbonded: 1, EpochIdentifier: verifenv.EpochDay, MaxValidators: maxVals, HistoricalEntries: 0, MinSelfDelegation: sdkmath.ZeroInt()})
	f.Env.RegisterAsset(verifenv.LSTAddrHex, 6, sdkmath.NewInt(1000))
	f.Oracle.Prices[verifenv.LSTAssetID()] = oracletypes.Price{Value: sdkmath.NewInt(1), Decimal: 0}
	_, err := f.AVS.RegisterAVSWithChainID(f.Ctx, &avstypes.AVSRegisterOrDeregisterParams{
		AvsName: "dogfood", AssetID: []string{verifenv.LSTAssetID()}, UnbondingPeriod: 1, EpochIdentifier: verifenv.EpochDay,
		ChainID: f.Ctx.ChainID(), AvsOwnerAddress: []string{verifenv.Authority}})
	verifrt.Assume(err == nil)
	avs := avstypes.GenerateAVSAddr(chain)
	ms := operatorkeeper.NewMsgServerImpl(*f.Operator)

	var keys []keytypes.WrappedConsKey
	// the operators' keys plus one key nobody holds any more
	for j := 0; j <= nOps; j++ {
		keys = append(keys, keytypes.NewWrappedConsKeyFromJSON(keyJSON(j)))
	}
	// operators: 0 = never opted in, 1 = active, 2 = opted in and jailed
	status := make([]int, nOps)
	power := make([]int64, nOps)
	for o := 0; o < nOps; o++ {
		f.RegisterOperator(o)
		status[o] = verifrt.Choice(nm("operator%d_status", o), 3)
		if status[o] == 0 {
			continue
		}
		_, err := ms.OptIntoAVS(sdk.WrapSDKContext(f.Ctx), &operatortypes.OptIntoAVSReq{FromAddress: verifenv.OperatorBech[o], AvsAddress: avs, PublicKeyJSON: keyJSON(o)})
		verifrt.Assume(err == nil)
		// active USD value with a fractional part: the vote power is its whole-number part
		v := verifrt.Dec(nm("operator%d_usd_value", o))
		verifrt.Assume(verifrt.All(!v.IsNegative(), v.LTE(sdkmath.LegacyNewDecFromInt(usdCap))))
		f.PutUSDValue(avs, o, operatortypes.OperatorOptedUSDValue{SelfUSDValue: v, TotalUSDValue: v, ActiveUSDValue: v})
		power[o] = v.TruncateInt64()
		if status[o] == 2 {
			f.Operator.Jail(f.Ctx, keys[o].ToConsAddr(), chain)
		}
	}
	// previous validator set and its total
	prevIn := make([]bool, len(keys))
	prevPow := make([]int64, len(keys))
	prevTotal := sdkmath.ZeroInt()
	for j := range keys {
		prevIn[j] = verifrt.Bool(nm("key%d_in_previous_set", j))
		if !prevIn[j] {
			continue
		}
		prevPow[j] = verifrt.I64(nm("key%d_previous_power", j))
		verifrt.Assume(verifrt.All(prevPow[j] >= 1, prevPow[j] <= 1<<20))
		val, err := dogfoodtypes.NewExocoreValidator(keys[j].ToConsAddr(), prevPow[j], keys[j].ToSdkKey())
		verifrt.Assume(err == nil)
		f.Dogfood.SetExocoreValidator(f.Ctx, val)
		prevTotal = prevTotal.Add(sdkmath.NewInt(prevPow[j]))
	}
	f.Dogfood.SetLastTotalPower(f.Ctx, prevTotal)

	// a block that does not close an epoch hands nothing to consensus
	verifrt.Assert(len(f.Dogfood.EndBlock(f.Ctx)) == 0, "in a block that does not close the epoch the update list is empty")
	f.Dogfood.MarkEpochEnd(f.Ctx)
	updates := f.Dogfood.EndBlock(f.Ctx)

	// reference: eligible = active with power >= 1; operator i ranks before j on higher power, then lower address
	elig := make([]bool, nOps)
	for o := 0; o < nOps; o++ {
		elig[o] = verifrt.All(status[o] == 1, power[o] >= 1)
	}
	inSet := make([]bool, len(keys))
	total := sdkmath.ZeroInt()
	for o := 0; o < nOps; o++ {
		ahead := int64(0)
		for p := 0; p < nOps; p++ {
			if p != o {
				before := verifrt.Any(power[p] > power[o], verifrt.All(power[p] == power[o], p < o))
				ahead += verifrt.IteI64(verifrt.All(elig[p], before), 1, 0)
			}
		}
		inSet[o] = verifrt.All(elig[o], ahead < int64(maxVals))
		total = total.Add(verifrt.Ite(inSet[o], sdkmath.NewInt(power[o]), sdkmath.ZeroInt()))
	}
	// stored validator set == reference set
	changed := false
	for j := range keys {
		val, found := f.Dogfood.GetExocoreValidator(f.Ctx, keys[j].ToConsAddr())
		verifrt.Assert(found == inSet[j], "the stored validator set is exactly the highest-power eligible operators, at most the configured maximum")
		if found && j < nOps {
			verifrt.Assert(val.Power == power[j], "a stored validator carries the whole-number part of its operator's active USD value")
		}
		if verifrt.Any(found != prevIn[j], All2(found, prevIn[j], val.Power != prevPow[j])) {
			changed = true
		}
	}
	if changed {
		verifrt.Assert(f.Dogfood.GetLastTotalPower(f.Ctx).Equal(total), "the stored total power is the sum of the stored validators' powers")
	} else {
		verifrt.Assert(len(updates) == 0, "an unchanged validator set produces no updates")
		verifrt.Assert(f.Dogfood.GetLastTotalPower(f.Ctx).Equal(prevTotal), "an unchanged validator set keeps the total power")
	}
	// the update list is the diff
	seen := make([]int, len(keys))
	for i, u := range updates {
		j := keyOf(keys, u)
		verifrt.Assert(j >= 0, "every update is for a known key")
		if j < 0 {
			continue
		}
		seen[j]++
		if u.Power == 0 {
			verifrt.Assert(verifrt.All(prevIn[j], !inSet[j]), "a removal is only sent for a key of the previous set that is not in the new set")
		} else {
			verifrt.Assert(verifrt.All(inSet[j], u.Power == power[j], u.Power > 0), "an addition or power change carries the new positive power of a key in the new set")
			verifrt.Assert(verifrt.Any(!prevIn[j], prevPow[j] != u.Power), "no update is sent for an unchanged validator")
		}
		if i > 0 {
			p := updates[i-1]
			verifrt.Assert(verifrt.Any(p.Power > u.Power, verifrt.All(p.Power == u.Power, p.PubKey.String() > u.PubKey.String())), "the update list is strictly ordered (power, then key), identically on every node")
		}
	}
	for j := range keys {
		verifrt.Assert(seen[j] <= 1, "the update list never contains a key twice")
		need := verifrt.Any(inSet[j] != prevIn[j], All2(inSet[j], prevIn[j], j < nOps && power[jmin(j, nOps)] != prevPow[j]))
		verifrt.Assert((seen[j] == 1) == need, "every difference between the previous and the new set is sent exactly once")
	}
	got := f.Dogfood.GetValidatorUpdates(f.Ctx)
	verifrt.Assert(len(got) == len(updates), "the stored update list is what consensus was told")
	verifrt.Assert(!f.Dogfood.IsEpochEnd(f.Ctx), "the epoch-end marker is cleared")
	verifrt.Assert(len(f.Dogfood.EndBlock(f.Ctx)) == 0, "the following block hands nothing to consensus")
}

func jmin(j, nOps int) int {
	if j < nOps {
		return j
	}
	return 0
}

// All2 is verifrt.All for three conditions, kept separate for readability at call sites.
func All2(a, b, c bool) bool { return verifrt.All(a, b, c) }

func keyOf(keys []keytypes.WrappedConsKey, u abci.ValidatorUpdate) int {
	for j := range keys {
		pk := u.PubKey
		if keys[j].ToTmProtoKey().Equal(&pk) {
			return j
		}
	}
	return -1
}
