//go:build verif

package keeper

import (
	sdkmath "cosmossdk.io/math"
	"github.com/ExocoreNetwork/exocore/verifrt"
)

// deliberately false claim used to test counterexample replay
func VerifZZExact() {
	S := verifrt.Dec("S")
	T := verifrt.Int("T")
	x := verifrt.Int("x")
	max := sdkmath.NewInt(1000000)
	verifrt.Assume(verifrt.All(T.IsPositive(), T.LTE(max), x.IsPositive(), x.LTE(max)))
	verifrt.Assume(verifrt.All(S.GTE(sdkmath.LegacyNewDecFromInt(T)), S.LTE(sdkmath.LegacyNewDecFromInt(max))))
	sh, _ := SharesFromTokens(S, x, T)
	back, _ := TokensFromShares(sh, S.Add(sh), T.Add(x))
	verifrt.Assert(back.Equal(x), "round trip exact (false)")
}
