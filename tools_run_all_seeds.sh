#!/bin/bash
# runs every seeded change against its property's quick check and records the outcome in
# seeded/<seed>/result.json (which harness/label reported it). /repo must be clean.
cd /verif
for d in seeded/S-C*; do
  seed=$(basename $d); prop=$(echo $seed | sed -E 's/S-(C[0-9]+)-.*/\1/')
  [ -n "$1" ] && [ "$1" != "$seed" ] && continue
  out=$(./tools_run_seed.sh $seed $prop quick 2>&1)
  python3 - "$seed" "$prop" <<PY
import json,sys,re
seed,prop=sys.argv[1],sys.argv[2]
log=open(f'/tmp/seedrun-{seed}-{prop}.log').read()
viol=re.findall(r'^VIOLATION property=\S+ replay=\S+ harness=(\S+) label="([^"]*)"',log,re.M)
inc=len(re.findall(r'^INCONCLUSIVE',log,re.M))
rc=1 if viol else 0
json.dump({"seed":seed,"property":prop,"tier":"quick","caught":bool(viol),"violations":[{"harness":h,"label":l} for h,l in viol],"inconclusive_lines":inc},open(f'/verif/seeded/{seed}/result.json','w'),indent=1)
print(seed,prop,"CAUGHT" if viol else "missed",[h for h,_ in viol][:3],"inconclusive",inc)
PY
done
